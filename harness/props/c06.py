"""C06: on exact solutions the constraints vanish and the dt-quantities equal the true t-derivatives."""
from .. import geo_replay as GR
from . import geo_common as GC

K = GR.KAPPA
KEYS = [("Hamiltonian", "zero", 1.0), ("Momentumup3", "zero3", 1.0), ("Momentumdown3", "zero3", 1.0),
        ("rho_n", "kappa_rho_n", K), ("rho_n_fromHam", "kappa_rho_n", K), ("fluxup3_n", "kappa_fluxup3_n", K),
        ("fluxup3_n_fromMom", "kappa_fluxup3_n", K),
        ("dtKtrace", "dtKtrace", 1.0), ("dtphi_bssnok", "dtphi_bssnok", 1.0), ("dtgammaup3", "dtgammaup3", 1.0),
        ("dtgammadown3_bssnok", "dtgammadown3_bssnok", 1.0), ("dtAdown3_bssnok", "dtAdown3_bssnok", 1.0),
        ("dts_Gamma_bssnok", "dts_Gamma_bssnok", 1.0), ("s_Gamma_bssnok", "s_Gamma_bssnok", 1.0)]


def run(tier, seed):
    return GC.run_geo("C06", tier, seed, KEYS,
                      "every smooth 4-metric is an exact solution for T := (G + Lambda g)/kappa: TLC computes G, T and, in exact arithmetic, the TRUE "
                      "coordinate-time derivatives of K, phi, gamma^ij, gammatilde_ij, Atilde_ij and Gammatilde^i by differentiating the jets of "
                      "their definitions (no evolution equation is used), and checks at spec level that the Hamiltonian and momentum constraints "
                      "vanish identically; the real Hamiltonian, Momentumup3/down3 (must vanish), rho_n_fromHam, fluxup3_n_fromMom (must equal the "
                      "matter source) and the six dt-quantities are compared at the probe point for all classes (any lapse and shift), Lambda in "
                      "{0, 1/5}, fd_order 2..8")


def replay(path):
    print("re-run ./check C06 quick")
    return 1
