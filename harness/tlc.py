"""Run TLC and parse what it prints.

All TLC invocations of the framework go through `run_tlc`.  Specs are never
modified in place: the module(s) and a generated .cfg are copied to a scratch
directory that is removed afterwards, so nothing is left behind and parallel
runs do not collide.
"""
import json
import os
import re
import shutil
import subprocess


def _die_with_parent():
    """The JVM must not outlive a check that is interrupted (PR_SET_PDEATHSIG = 1, SIGKILL = 9)."""
    try:
        import ctypes
        ctypes.CDLL("libc.so.6").prctl(1, 9)
    except Exception:
        pass
import tempfile
import time

JAR_CP = "/opt/veriftools/tla/tla2tools.jar:/opt/veriftools/tla/CommunityModules-deps.jar"
SPEC_ROOT = os.path.join(os.path.dirname(os.path.dirname(os.path.abspath(__file__))), "spec")


class TLCError(Exception):
    """TLC itself failed (parse error, crash, time-out): machinery failure."""


class TLCResult:
    def __init__(self):
        self.stdout = ""
        self.generated = 0
        self.distinct = 0
        self.depth = 0
        self.printed = []        # values printed with PrintT(ToJson(..)) decoded
        self.violated = None     # name of violated invariant/property, if any
        self.error_trace = []    # list of dict var -> raw TLA+ text per state
        self.coverage = {}       # action name -> (distinct, total)
        self.wall = 0.0
        self.rc = 0
        self.postcondition_failed = False

    def __repr__(self):
        return (f"<TLC gen={self.generated} distinct={self.distinct} depth={self.depth} "
                f"violated={self.violated} printed={len(self.printed)} wall={self.wall:.1f}s>")


_num = r"([0-9,]+)"
RE_FINAL = re.compile(_num + r" states generated, " + _num + r" distinct states found")
RE_DEPTH = re.compile(r"The depth of the complete state graph search is " + _num)
RE_INV = re.compile(r"Error: Invariant (\S+) is violated")
RE_PROP = re.compile(r"Error: Action property (\S+) is violated|Error: Temporal properties were violated")
RE_STATE = re.compile(r"^State (\d+): (.*)$")
RE_COV = re.compile(r"^<(\w+) line \d+, col \d+ to line \d+, col \d+ of module (\w+)>: (\d+):(\d+)")


def _int(s):
    return int(s.replace(",", ""))


def parse_printed(line):
    """A PrintT(ToJson(x)) line is a TLA+ string literal holding JSON."""
    line = line.strip()
    if len(line) >= 2 and line[0] == '"' and line[-1] == '"':
        try:
            inner = json.loads(line)
        except Exception:
            return None
        if isinstance(inner, str):
            s = inner.strip()
            if s[:1] in "[{":
                try:
                    return json.loads(s)
                except Exception:
                    return None
    return None


def parse_output(out, res):
    cur = None
    for line in out.splitlines():
        m = RE_FINAL.search(line)
        if m:
            res.generated = _int(m.group(1))
            res.distinct = _int(m.group(2))
        m = RE_DEPTH.search(line)
        if m:
            res.depth = _int(m.group(1))
        m = RE_INV.search(line)
        if m:
            res.violated = m.group(1)
        m = RE_PROP.search(line)
        if m and not res.violated:
            res.violated = m.group(1) or "temporal"
        if "Error: Postcondition" in line or "Evaluating assumption" in line and "false" in line:
            res.postcondition_failed = True
        m = RE_STATE.match(line)
        if m:
            cur = {"_n": int(m.group(1)), "_action": m.group(2)}
            res.error_trace.append(cur)
            continue
        if cur is not None:
            mm = re.match(r"^(/\\ )?(\w+) = (.*)$", line)
            if mm:
                cur[mm.group(2)] = mm.group(3)
                cur["_last"] = mm.group(2)
            elif line.strip() == "":
                cur = None
            elif "_last" in cur:
                cur[cur["_last"]] += " " + line.strip()
        m = RE_COV.match(line)
        if m:
            res.coverage[m.group(1)] = (int(m.group(3)), int(m.group(4)))
        p = parse_printed(line)
        if p is not None:
            res.printed.append(p)


def run_tlc(module, cfg_text, spec_dirs, workers=None, simulate=None, depth=None,
            seed=None, extra_files=None, env=None, timeout=3600, coverage=False,
            deadlock=False, jvm_opts=None, dfs_queue=False, keep=False, extra_args=None):
    """Run TLC on `module` (name without .tla) found in one of spec_dirs.

    spec_dirs: list of directories (relative to /verif/spec or absolute) whose
    .tla files are copied to the scratch dir.  extra_files: {name: text}.
    """
    t0 = time.time()
    scratch = tempfile.mkdtemp(prefix="vtlc_")
    try:
        for d in spec_dirs:
            d = d if os.path.isabs(d) else os.path.join(SPEC_ROOT, d)
            for f in os.listdir(d):
                if f.endswith(".tla"):
                    shutil.copy(os.path.join(d, f), os.path.join(scratch, f))
        for name, text in (extra_files or {}).items():
            with open(os.path.join(scratch, name), "w") as fh:
                fh.write(text)
        with open(os.path.join(scratch, module + ".cfg"), "w") as fh:
            fh.write(cfg_text)
        cmd = ["java", "-XX:+UseParallelGC", "-Xss16m"]
        if dfs_queue:
            cmd.append("-Dtlc2.tool.queue.IStateQueue=StateDeque")
        cmd += list(jvm_opts or ["-Xmx12g"])
        cmd += ["-cp", JAR_CP, "tlc2.TLC", "-noGenerateSpecTE",
                "-metadir", os.path.join(scratch, "meta"),
                "-workers", str(workers or os.cpu_count() or 4)]
        if not deadlock:
            cmd += ["-deadlock"]
        if coverage:
            cmd += ["-coverage", "1"]
        if simulate is not None:
            cmd += ["-simulate", simulate]
        if depth is not None:
            cmd += ["-depth", str(depth)]
        if seed is not None:
            cmd += ["-seed", str(seed)]
        cmd += list(extra_args or [])
        cmd += ["-config", module + ".cfg", module + ".tla"]
        e = dict(os.environ)
        e.update(env or {})
        try:
            p = subprocess.run(cmd, cwd=scratch, env=e, capture_output=True, text=True, timeout=timeout, preexec_fn=_die_with_parent)
        except subprocess.TimeoutExpired as ex:
            raise TLCError(f"TLC timed out after {timeout}s on {module}") from ex
        res = TLCResult()
        res.stdout = p.stdout + p.stderr
        res.rc = p.returncode
        parse_output(res.stdout, res)
        res.wall = time.time() - t0
        # rc: 0 ok, 12 safety violation, 13 liveness violation, 10/11 assumption/deadlock
        fatal = ("Parsing or semantic analysis failed" in res.stdout
                 or "TLC threw an unexpected exception" in res.stdout
                 or "java.lang." in res.stdout and "Exception" in res.stdout and res.violated is None
                 or "Error: TLC was unable to" in res.stdout
                 or "Fatal" in res.stdout and "Finished" not in res.stdout)
        if fatal or (p.returncode not in (0, 12, 13) and res.violated is None
                     and not res.postcondition_failed and simulate is None):
            lines = res.stdout.splitlines()
            first = [i for i, l in enumerate(lines) if l.startswith("Error:")]
            if first:
                tail = "\n".join(lines[first[0]:first[0] + 25])
            else:
                tail = "\n".join(lines[-40:])
            raise TLCError(f"TLC failed on {module} (rc={p.returncode}):\n{tail}")
        return res
    finally:
        if not keep:
            shutil.rmtree(scratch, ignore_errors=True)


def wrapper(module, defs, extends_extra=""):
    """Wrapper module so that constants can be arbitrary TLA+ expressions.

    defs: {ConstantName: tla_expression}.  Returns (name, text, cfg_constant_lines)."""
    name = "MC_" + module
    body = [f"---- MODULE {name} ----", f"EXTENDS {module}{extends_extra}"]
    cfg = []
    for k, v in defs.items():
        body.append(f"MCdef_{k} == {v}")
        cfg.append(f"  {k} <- MCdef_{k}")
    body.append("====")
    return name, "\n".join(body) + "\n", "\n".join(cfg)


def tla_set(items):
    return "{" + ", ".join(items) + "}"


def tla_str(s):
    return '"' + str(s).replace("\\", "\\\\").replace('"', '\\"') + '"'


def tla_seq(items):
    return "<<" + ", ".join(items) + ">>"


# ---- parser for TLA+ values as TLC prints them in states / dumps ----------

def parse_tla_value(s):
    """Parse TLC's textual rendering of a value into Python objects.

    sets -> frozenset/list (list if unhashable), sequences/tuples -> tuple,
    records -> dict, functions (a :> b @@ ..) -> dict, strings, ints, booleans.
    """
    pos = 0
    n = len(s)

    def ws():
        nonlocal pos
        while pos < n and s[pos] in " \n\t\r":
            pos += 1

    def val():
        nonlocal pos
        ws()
        c = s[pos]
        if c == '"':
            j = pos + 1
            out = []
            while s[j] != '"':
                if s[j] == "\\":
                    j += 1
                out.append(s[j])
                j += 1
            pos = j + 1
            return "".join(out)
        if s.startswith("<<", pos):
            pos += 2
            items = []
            ws()
            if s.startswith(">>", pos):
                pos += 2
                return tuple(items)
            while True:
                items.append(val())
                ws()
                if s.startswith(">>", pos):
                    pos += 2
                    return tuple(items)
                assert s[pos] == ",", (s[pos:pos + 20])
                pos += 1
        if c == "{":
            pos += 1
            items = []
            ws()
            if s[pos] == "}":
                pos += 1
                return frozenset()
            while True:
                items.append(val())
                ws()
                if s[pos] == "}":
                    pos += 1
                    try:
                        return frozenset(items)
                    except TypeError:
                        return items
                assert s[pos] == ","
                pos += 1
        if c == "[":
            pos += 1
            d = {}
            while True:
                ws()
                m = re.match(r"(\w+) \|-> ", s[pos:])
                assert m, s[pos:pos + 30]
                pos += m.end()
                d[m.group(1)] = val()
                ws()
                if s[pos] == "]":
                    pos += 1
                    return d
                assert s[pos] == ","
                pos += 1
        if c == "(":
            pos += 1
            d = {}
            while True:
                k = val()
                ws()
                assert s.startswith(":>", pos)
                pos += 2
                v = val()
                d[k] = v
                ws()
                if s.startswith("@@", pos):
                    pos += 2
                    continue
                assert s[pos] == ")"
                pos += 1
                return d
        m = re.match(r"-?\d+", s[pos:])
        if m:
            pos += m.end()
            v = int(m.group(0))
            ws()
            # a :> b without parentheses (single pair function)
            if s.startswith(":>", pos):
                pos += 2
                return {v: val()}
            return v
        m = re.match(r"TRUE|FALSE", s[pos:])
        if m:
            pos += m.end()
            return m.group(0) == "TRUE"
        m = re.match(r"\w+", s[pos:])
        if m:
            pos += m.end()
            return m.group(0)
        raise ValueError("cannot parse TLA value at: " + s[pos:pos + 40])

    v = val()
    ws()
    if s.startswith(":>", pos):   # "a" :> 1 @@ ... at top level without parens
        pos += 2
        d = {v: val()}
        ws()
        while s.startswith("@@", pos):
            pos += 2
            k = val()
            ws()
            pos += 2
            d[k] = val()
            ws()
        return d
    return v
