"""C08: pointwise tensor-algebra identities hold to round-off for every input."""
import itertools
import json
from fractions import Fraction
from random import Random

import numpy as np

from ..common import Run
from ..tlc import run_tlc, wrapper

BASE = {"Part": '"matrix"', "N": "3", "EntryVals": "{0}", "Kinds": "{}", "Vals": "{}", "Points": "<< >>"}
INVS = ["AdjugateIdentity", "AdjugateSymmetric", "PlacementHasRiemannSymmetries", "DivisionNeverSingular", "MetricIdentities", "Emit"]


def tlc_part(defs):
    d = dict(BASE)
    d.update(defs)
    name, text, cl = wrapper("Pointwise", d)
    cfg = "SPECIFICATION Spec\nCONSTANTS\n" + cl + "\n" + "".join(f"INVARIANT {i}\n" for i in INVS)
    return run_tlc(name, cfg, ["geometry", "exact"], extra_files={name + ".tla": text}, timeout=3000)


def grid_shape(n):
    a = int(np.ceil(n ** (1 / 3)))
    return (a, a, int(np.ceil(n / (a * a))))


def check_matrices(run, recs, n):
    import aurel.maths as m
    shape = grid_shape(len(recs))
    tot = shape[0] * shape[1] * shape[2]
    E = np.zeros((n, n, tot))
    E[:, :, len(recs):] = np.eye(n)[:, :, None]
    det = np.ones(tot)
    adj = np.zeros((n, n, tot))
    for k, r in enumerate(recs):
        E[:, :, k] = np.array(r["e"], dtype=float).reshape(n, n)
        det[k] = r["det"]
        adj[:, :, k] = np.array(r["adj"], dtype=float).reshape(n, n)
    adj[:, :, len(recs):] = np.eye(n)[:, :, None]
    F = E.reshape((n, n) + shape)
    dfun, ifun = (m.determinant3, m.inverse3) if n == 3 else (m.determinant4, m.inverse4)
    gd = dfun(F).reshape(tot)
    gi = ifun(F).reshape((n, n, tot))
    bad = np.nonzero(gd != det)[0]
    if len(bad):
        k = int(bad[0])
        run.violation({"clause": "DeterminantEqualsLeibniz", "n": n},
                      f"determinant{n} of {E[:, :, k].tolist()} = {gd[k]!r}, the Leibniz formula gives {det[k]!r}", {"matrix": E[:, :, k].tolist()})
    nz = det != 0
    err = np.abs(gi * det[None, None, :] - adj)
    err[:, :, ~nz] = 0
    if err.max() > 1e-12 * max(1.0, np.abs(adj).max()):
        k = int(np.argmax(err.max(axis=(0, 1))))
        run.violation({"clause": "InverseEqualsAdjugateOverDet", "n": n},
                      f"inverse{n} of {E[:, :, k].tolist()} times its determinant = {(gi[:, :, k] * det[k]).round(9).tolist()}, "
                      f"the adjugate is {adj[:, :, k].tolist()}", {"matrix": E[:, :, k].tolist()})
    sing = np.abs(gi[:, :, ~nz]).max() if (~nz).any() else 0.0
    if not np.all(np.isfinite(gi)) or sing != 0.0:
        run.violation({"clause": "DivisionZeroWhereSingular", "n": n},
                      f"inverse{n} of a singular matrix is not the all-zero matrix / not finite (max |entry| {sing!r})", {})
    # list-of-components input form
    comps = [F[i, j] for i in range(n) for j in range(i, n)]
    if not np.array_equal(dfun(comps).reshape(tot), gd):
        run.violation({"clause": "ComponentListForm", "n": n}, f"determinant{n} differs between the array and the component-list form", {})
    run.traces += 1
    for r in recs:
        run.count(("matrix", n, tuple(r["e"])) if any(r["e"][i * n + j] for i in range(n) for j in range(n) if i != j) else None)


KINDS = ["pyint", "pyfloat", "npfloat64", "npint64", "arr_f64", "arr_f32", "arr_i64", "arr_i32", "arr0d", "arr_bcast"]


def make_operand(kind, v, other_shape=(2, 3)):
    if kind == "pyint":
        return int(v)
    if kind == "pyfloat":
        return float(v)
    if kind == "npfloat64":
        return np.float64(v)
    if kind == "npint64":
        return np.int64(v)
    if kind == "arr0d":
        return np.array(float(v))
    dt = {"arr_f64": np.float64, "arr_f32": np.float32, "arr_i64": np.int64, "arr_i32": np.int32, "arr_bcast": np.float64}[kind]
    if kind == "arr_bcast":
        return np.full((3,), v, dtype=dt)
    a = np.full(other_shape, v, dtype=dt)
    return a


def check_division(run, recs):
    import warnings
    import aurel.maths as m
    for r in recs:
        q = r["q"]
        a = make_operand(q["ka"], q["a"])
        b = make_operand(q["kb"], q["b"])
        want = Fraction(r["expected"][0], r["expected"][1])
        run.count(("div", q["ka"], q["kb"], q["a"] == 0, q["b"] == 0))
        with warnings.catch_warnings(record=True) as w:
            warnings.simplefilter("always")
            try:
                c = m.safe_division(a, b)
            except Exception as ex:
                run.violation({"clause": "SafeDivision", "ka": q["ka"], "kb": q["kb"], "exc": type(ex).__name__},
                              f"safe_division({q['ka']} {q['a']}, {q['kb']} {q['b']}) raised {type(ex).__name__}: {ex}", {"q": q})
                continue
        arr = np.asarray(c, dtype=float)
        tol = 1e-6 if "f32" in q["ka"] + q["kb"] or "i32" in q["ka"] + q["kb"] else 1e-14
        if not np.all(np.isfinite(arr)) or np.abs(arr - float(want)).max() > tol * max(1.0, abs(float(want))):
            run.violation({"clause": "SafeDivision", "ka": q["ka"], "kb": q["kb"], "bzero": q["b"] == 0},
                          f"safe_division({q['ka']} {q['a']}, {q['kb']} {q['b']}) = {c!r}, expected {want} (0 exactly where the divisor is 0, never inf/NaN)",
                          {"q": q})
        elif [x for x in w if issubclass(x.category, RuntimeWarning)]:
            run.info.setdefault("division_runtime_warnings", []).append(f"{q['ka']}/{q['kb']}")
    # mixed zero pattern, broadcast both ways, tiny divisors
    a = np.arange(12.0).reshape(3, 4) - 5
    b = np.array([0.0, 2.0, 0.0, -4.0])
    c = m.safe_division(a, b)
    exp = np.where(b != 0, a / np.where(b != 0, b, 1), 0.0)
    if not np.array_equal(c, exp):
        run.violation({"clause": "SafeDivision", "kind": "broadcast-pattern"}, f"safe_division with a mixed zero pattern: {c.tolist()} vs {exp.tolist()}", {})
    tiny = np.array([1e-300, -1e-12, 1e-9, 5e-324])
    c = m.safe_division(np.ones(4) * 1e-300, tiny)
    if not np.allclose(c, 1e-300 / tiny, rtol=1e-12, atol=0):
        run.violation({"clause": "SafeDivision", "kind": "tiny-divisor"},
                      f"safe_division by tiny non-zero divisors {tiny.tolist()} gave {c.tolist()} (0 is only allowed exactly where the divisor is 0)", {})
    run.traces += 1


def check_placement(run, recs):
    import aurel.maths as m
    rng = np.random.default_rng(0)
    sh = (2, 2, 2)
    ssss = rng.integers(-9, 10, size=(3, 3, 3, 3) + sh).astype(float)
    ssst = rng.integers(-9, 10, size=(3, 3, 3) + sh).astype(float)
    stst = rng.integers(-9, 10, size=(3, 3) + sh).astype(float)
    # give the inputs the symmetries the 3+1 pieces have
    ssss = ssss - np.swapaxes(ssss, 0, 1)
    ssss = ssss - np.swapaxes(ssss, 2, 3)
    ssss = ssss + np.transpose(ssss, (2, 3, 0, 1) + (4, 5, 6))
    ssst = ssst - np.swapaxes(ssst, 0, 1)
    stst = stst + np.swapaxes(stst, 0, 1)
    R = m.populate_4Riemann(ssss, ssst, stst)
    for r in recs:
        a, b, c, d = [x - 1 for x in r["abcd"]]
        p = r["place"]
        idx = tuple(i - 2 for i in p["idx"])
        want = {"zero": 0.0 * ssss[0, 0, 0, 0], "ssss": None, "ssst": None, "stst": None}
        if p["piece"] == "zero":
            w = np.zeros(sh)
        else:
            w = p["sign"] * {"ssss": ssss, "ssst": ssst, "stst": stst}[p["piece"]][idx]
        run.count(("place", p["piece"], tuple(r["abcd"])) if p["piece"] != "zero" else None)
        if not np.array_equal(R[a, b, c, d], w):
            run.violation({"clause": "RiemannPlacement", "piece": p["piece"]},
                          f"populate_4Riemann puts {R[a, b, c, d].ravel()[0]!r} at R[{a},{b},{c},{d}], the 3+1 decomposition says "
                          f"{p['sign']} * R_{p['piece']}{list(idx)} = {w.ravel()[0]!r}", {"abcd": r["abcd"]})
            break
    run.traces += 1


def make_points(n, seed):
    rng = Random(seed)
    pts = []
    while len(pts) < n:
        L = [[1, 0, 0], [rng.randint(-2, 2), 1, 0], [rng.randint(-2, 2), rng.randint(-2, 2), 1]]
        d = [rng.randint(1, 3) for _ in range(3)]
        g = [[sum(L[i][k] * d[k] * L[j][k] for k in range(3)) for j in range(3)] for i in range(3)]
        pts.append({"a2": rng.randint(1, 6), "b": [rng.randint(-3, 3) for _ in range(3)],
                    "g": [g[0][0], g[0][1], g[0][2], g[1][1], g[1][2], g[2][2]], "k": [rng.randint(-4, 4) for _ in range(6)]})
    return pts


def check_metric(run, pts, recs, presentation="tensors", reverse=False):
    """Every point of the grid is one TLC state: inputs are constant per point, outputs compared point by point."""
    import aurel.core as core
    import aurel.finitedifference as fdm
    n = len(pts)
    shape = grid_shape(n)
    tot = shape[0] * shape[1] * shape[2]
    param = {"Nx": shape[0], "Ny": shape[1], "Nz": shape[2], "xmin": 0.0, "ymin": 0.0, "zmin": 0.0, "dx": 1.0, "dy": 1.0, "dz": 1.0}
    fd = fdm.FiniteDifference(param, fd_order=2, verbose=False)

    def fieldof(f):
        a = np.array([f(p) for p in pts] + [f(pts[0])] * (tot - n), dtype=float)
        return a.reshape(shape)
    S = [(0, 0), (0, 1), (0, 2), (1, 1), (1, 2), (2, 2)]
    gam = np.zeros((3, 3) + shape)
    K = np.zeros((3, 3) + shape)
    for k, (i, j) in enumerate(S):
        gam[i, j] = gam[j, i] = fieldof(lambda p, k=k: p["g"][k])
        K[i, j] = K[j, i] = fieldof(lambda p, k=k: p["k"][k])
    beta = np.array([fieldof(lambda p, i=i: p["b"][i] / 2) for i in range(3)])

    def make_rel():
        rel = core.AurelCore(fd, verbose=False, clear_cache_every_nbr_calc=10 ** 6)     # keep everything: the second pass re-reads it
        rel.data["alpha"] = fieldof(lambda p: p["a2"] / 2)
        if presentation == "tensors":
            rel.data["gammadown3"] = gam
            rel.data["Kdown3"] = K
            rel.data["betaup3"] = beta
        else:
            # the same fields handed over component by component; "partial-shift": only the non-zero shift components are given
            for (i, j), nm in zip(S, ["xx", "xy", "xz", "yy", "yz", "zz"]):
                rel.data["g" + nm] = gam[i, j].copy()
                rel.data["k" + nm] = K[i, j].copy()
            for i, nm in enumerate("xyz"):
                if presentation == "components" or np.abs(beta[i]).max() > 0:
                    rel.data["beta" + nm] = beta[i]
        rel.freeze_data()
        return rel
    rel = make_rel()
    by = {r["pt"]: r["out"] for r in recs}
    fr = lambda x: Fraction(x[0], x[1])
    # s_to_st as the first call on an instance of its own, before any request has cached the shift vector:
    # K_00 = beta^i beta^j K_ij, K_0k = beta^i K_ik
    got = make_rel().s_to_st(K.copy()).reshape((4, 4, tot))
    for k in range(n):
        want = np.array([float(fr(x)) for x in by[k + 1]["Kdown4"]]).reshape(4, 4)
        run.count(("metric", "s_to_st", k))
        if np.abs(got[..., k] - want).max() > 1e-11 * max(1.0, np.abs(want).max()):
            run.violation({"clause": "MetricAlgebra", "key": "s_to_st", "inputs": presentation},
                          f"[inputs given as {presentation}] s_to_st(K_ij) at the grid point with inputs {pts[k]} = {got[..., k].round(10).tolist()}, exact value "
                          f"{want.round(10).tolist()} (K_00 = beta^i beta^j K_ij, K_0k = beta^i K_ik)", {"point": pts[k], "key": "s_to_st"})
            break
    keys = {"betadown3": (3,), "gammadet": (), "gammaup3": (3, 3), "betamag": (), "gtt": (), "gdet": (), "nup4": (4,), "Ktrace": (),
            "Kup3": (3, 3), "Adown3": (3, 3)}
    if reverse:
        # the same quantities requested in the opposite order on a new instance (Adown3 before Kup3 and Ktrace, gdet before gtt ...)
        keys = dict(reversed(list(keys.items())))
        presentation_txt = presentation + ", keys in reverse order"
    else:
        presentation_txt = presentation
    # two passes: the second one after every quantity (gammadown4, the conformal ones, ...) has been requested once, so that
    # an entry overwritten in place by a later request is seen
    for npass, when in enumerate(("", " [second pass, after every quantity was requested once]")):
        for key, shp in keys.items():
            got = rel[key].reshape(shp + (tot,))
            for k in range(n):
                o = by[k + 1][key]
                want = np.array([float(fr(x)) for x in o]).reshape(shp) if shp else float(fr(o))
                g = got[..., k]
                run.count(("metric", key, k))
                if np.abs(g - want).max() > 1e-11 * max(1.0, np.abs(want).max()):
                    run.violation({"clause": "MetricAlgebra", "key": key, "inputs": presentation, "pass": npass},
                                  f"[inputs given as {presentation_txt}]{when} rel[{key!r}] at the grid point with inputs {pts[k]} = {np.asarray(g).round(10).tolist()}, exact value "
                                  f"{np.asarray(want).round(10).tolist()}", {"point": pts[k], "key": key})
                    break
        # identities on the code's outputs at every grid point
        at = lambda v: v
        g4 = rel["gdown4"]
        gu4 = rel["gup4"]
        ident = np.einsum("ab...,bc...->ac...", gu4, g4) - np.eye(4)[(...,) + (None,) * 3]
        checks = {
            "g^-1 g = 1 (4-D)": np.abs(ident).max(),
            "gamma^-1 gamma = 1": np.abs(np.einsum("ab...,bc...->ac...", rel["gammaup3"], gam) - np.eye(3)[(...,) + (None,) * 3]).max(),
            "g_ti = beta_i": np.abs(g4[0, 1:] - rel["betadown3"]).max(),
            "det g = -alpha^2 det gamma": np.abs(rel["gdet"] + rel["alpha"] ** 2 * rel["gammadet"]).max() / np.abs(rel["gdet"]).max(),
            "n.n = -1": np.abs(np.einsum("ab...,a...,b...->...", g4, rel["nup4"], rel["nup4"]) + 1).max(),
            "n_mu gamma^mu_nu = 0": np.abs(np.einsum("a...,ab...->b...", rel["ndown4"], rel["gammaup4"])).max(),
            "n_mu = g_mu_nu n^nu": np.abs(np.einsum("ab...,b...->a...", g4, rel["nup4"]) - rel["ndown4"]).max(),
            "A trace-free": np.abs(np.einsum("ab...,ab...->...", rel["gammaup3"], rel["Adown3"])).max(),
            "Aup3 = raised Adown3": np.abs(rel["Aup3"] - np.einsum("ia...,jb...,ab...->ij...", rel["gammaup3"], rel["gammaup3"], rel["Adown3"])).max(),
            "det conformal metric = 1": np.abs(np.linalg.det(np.moveaxis(rel["gammadown3_bssnok"], (0, 1), (-2, -1))) - 1).max(),
            "conformal inverse": np.abs(np.einsum("ab...,bc...->ac...", rel["gammaup3_bssnok"], rel["gammadown3_bssnok"]) - np.eye(3)[(...,) + (None,) * 3]).max(),
            "Adown3_bssnok = psi^-4 A": np.abs(rel["Adown3_bssnok"] - rel["gammadet"] ** (-1 / 3) * rel["Adown3"]).max(),
            "A2_bssnok = A_ij A^ij": np.abs(rel["A2_bssnok"] - np.einsum("ab...,ab...->...", rel["Adown3"], rel["Aup3"])).max() / (1 + np.abs(rel["A2_bssnok"]).max()),
            "gammadown4 spatial block": np.abs(rel["gammadown4"][1:, 1:] - gam).max(),
        }
        for name, err in checks.items():
            run.count(("identity", name))
            if not np.isfinite(err) or err > 1e-9:
                run.violation({"clause": "Identity", "identity": name, "inputs": presentation, "pass": npass}, f"[inputs given as {presentation}]{when} identity '{name}' fails on the grid of {n} exact input points: max deviation {err:.3g}", {})
    if presentation != "tensors" or reverse:
        run.traces += 1
        return
    # algebraic symmetries of the curvature outputs (on smooth non-trivial data)
    from .. import fields
    fd2 = fields.make_fd(N=9, order=4, h=0.02)
    rel2 = core.AurelCore(fd2, verbose=False, clear_cache_every_nbr_calc=10 ** 6)
    for k, v in fields.generic_inputs(fd2, 3, "tensors").items():
        rel2.data[k] = v
    rel2.freeze_data()
    for key in ("st_Riemann_down4", "st_Weyl_down4"):
        Rm = rel2[key]
        sc = np.abs(Rm).max()
        # antisymmetry in the last pair is structural (round-off); the other symmetries involve finite differences of
        # different components and hold to the discretisation error of the scheme on smooth data
        exact = np.abs(Rm + np.swapaxes(Rm, 2, 3)).max()
        disc = max(np.abs(Rm + np.swapaxes(Rm, 0, 1)).max(), np.abs(Rm - np.transpose(Rm, (2, 3, 0, 1, 4, 5, 6))).max(),
                   np.abs(Rm + np.transpose(Rm, (0, 2, 3, 1, 4, 5, 6)) + np.transpose(Rm, (0, 3, 1, 2, 4, 5, 6))).max())
        run.count(("symmetry", key))
        if exact > 1e-8 * sc or disc > 2e-4 * sc:
            run.violation({"clause": "RiemannSymmetries", "key": key},
                          f"{key}: antisymmetry in the last index pair off by {exact / sc:.3g}, pair symmetry / first-pair antisymmetry / Bianchi "
                          f"off by {disc / sc:.3g} (relative; allowed: round-off and the discretisation error 2e-4)", {})
    run.traces += 1


def run(tier, seed):
    run = Run("C08", tier, seed)
    r3 = tlc_part({"Part": '"matrix"', "N": "3", "EntryVals": "{-1, 0, 2}"})
    run.add_tlc(r3, "Pointwise: every symmetric 3x3 matrix over {-1,0,2} (complete interpolation grid)")
    vals4 = "{-1, 0, 2}" if tier == "thorough" else "{-1, 2}"
    r4 = tlc_part({"Part": '"matrix"', "N": "4", "EntryVals": vals4})
    run.add_tlc(r4, f"Pointwise: every symmetric 4x4 matrix over {vals4}")
    q = lambda s: '"' + s + '"'
    rd = tlc_part({"Part": '"divide"', "Kinds": "{" + ", ".join(q(k) for k in KINDS) + "}", "Vals": "{-3, 0, 2}"})
    run.add_tlc(rd, "Pointwise: division case table (10 operand kinds squared x values incl. 0)")
    rp = tlc_part({"Part": '"place"'})
    run.add_tlc(rp, "Pointwise: placement of the 3+1 pieces in R_abcd (256 index tuples)")
    pts = make_points(120 if tier == "quick" else 600, seed)
    ptla = "<<" + ", ".join("[a2 |-> %d, b |-> <<%d, %d, %d>>, g |-> <<%s>>, k |-> <<%s>>]" % (
        p["a2"], p["b"][0], p["b"][1], p["b"][2], ", ".join(map(str, p["g"])), ", ".join(map(str, p["k"]))) for p in pts) + ">>"
    rm = tlc_part({"Part": '"metric"', "Points": ptla})
    run.add_tlc(rm, f"Pointwise: 3+1 metric algebra in exact rationals at {len(pts)} points")
    for r in (r3, r4, rd, rp, rm):
        if r.violated:
            raise RuntimeError("Pointwise spec violates " + r.violated)
    check_matrices(run, [p for p in r3.printed if "det" in p], 3)
    check_matrices(run, [p for p in r4.printed if "det" in p], 4)
    check_division(run, [p for p in rd.printed if "expected" in p])
    check_placement(run, [p for p in rp.printed if "place" in p])
    check_metric(run, pts, [p for p in rm.printed if "out" in p])
    check_metric(run, pts, [p for p in rm.printed if "out" in p], "components")
    check_metric(run, pts, [p for p in rm.printed if "out" in p], "tensors", reverse=True)
    pts2 = [dict(p, b=[0, p["b"][1], p["b"][2] or 1]) for p in pts[:60]]
    ptla2 = "<<" + ", ".join("[a2 |-> %d, b |-> <<%d, %d, %d>>, g |-> <<%s>>, k |-> <<%s>>]" % (
        p["a2"], p["b"][0], p["b"][1], p["b"][2], ", ".join(map(str, p["g"])), ", ".join(map(str, p["k"]))) for p in pts2) + ">>"
    rm2 = tlc_part({"Part": '"metric"', "Points": ptla2})
    run.add_tlc(rm2, f"Pointwise: 3+1 metric algebra at {len(pts2)} points with beta^x = 0 (shift given by its non-zero components only)")
    check_metric(run, pts2, [p for p in rm2.printed if "out" in p], "partial-shift")
    # the shift along one axis only, handed over by that single component key
    for ax in range(3):
        pts3 = [dict(p, b=[(p["b"][ax] or 2) if i == ax else 0 for i in range(3)]) for p in pts[60:90]]
        ptla3 = "<<" + ", ".join("[a2 |-> %d, b |-> <<%d, %d, %d>>, g |-> <<%s>>, k |-> <<%s>>]" % (
            p["a2"], p["b"][0], p["b"][1], p["b"][2], ", ".join(map(str, p["g"])), ", ".join(map(str, p["k"]))) for p in pts3) + ">>"
        rm3 = tlc_part({"Part": '"metric"', "Points": ptla3})
        if rm3.violated:
            raise RuntimeError("Pointwise spec violates " + rm3.violated)
        run.add_tlc(rm3, f"Pointwise: 3+1 metric algebra at {len(pts3)} points with the shift along {'xyz'[ax]} only (given by that component alone)")
        check_metric(run, pts3, [p for p in rm3.printed if "out" in p], "partial-shift")
    run.sample({"matrix_state": r3.printed[100] if len(r3.printed) > 100 else None, "division_state": rd.printed[7], "metric_point": pts[0]})
    run.exhaustive = True
    run.rule = ("TLC enumerates every symmetric 3x3 (and 4x4) matrix over a 3-value (2-value in quick) entry set - a complete interpolation grid for "
                "determinant and adjugate, which have degree <= 2 in every entry, so agreement on the grid proves the polynomial identity -, the "
                "division case table (operand kinds x zero / non-zero values), the index placement of the 3+1 Riemann pieces, and exact-rational 3+1 "
                "metric algebra at random integer points; the real determinant3/4, inverse3/4, safe_division, populate_4Riemann and the assembled "
                "quantities are evaluated on grids whose every point is one TLC state; 14 identities (g^-1 g = 1, det g = -alpha^2 det gamma, "
                "n.n = -1, trace-free, unit conformal determinant, ...) and the Riemann/Weyl symmetries are evaluated on the code's outputs")
    run.assumptions = ["float comparison within 1e-11 relative of the exact rational value"]
    return run.finish()


def replay(path):
    print("re-run ./check C08 quick")
    return 1
