"""Evaluation programs of AurelCoreSymbolic, extracted like those of AurelCore (harness/extract.py)."""
import sympy as sp

from . import extract as X
from . import recorder

KEYS = ["gdown", "gup", "gdet", "Gamma_udd", "Gamma_down", "Riemann_uddd", "Riemann_down", "Ricci_down", "RicciS", "Einstein_down"]


def new_sym(simplify=False, metric=None, coords=None):
    import aurel.coresymbolic as cs
    if coords is None:
        x, y = sp.symbols("x y")
        coords = [x, y]
        metric = sp.Matrix([[1 + x ** 2, x * y], [x * y, 2 + y ** 2]])
    rel = cs.AurelCoreSymbolic(coords, verbose=False, simplify=simplify)
    rel.data["gdown"] = metric
    return rel


def run_path(key, script, simplify):
    recorder.install_symbolic()
    prepop = []
    for attempt in range(6):
        rel = new_sym(simplify)
        for x in [x for x, out in script if out] + prepop:
            if not dict.__contains__(rel.data, x):
                rel[x]
        if dict.__contains__(rel.data, key) and key != "gdown":
            del rel.data[key]
        rec = recorder.Recorder(rel, forced=[o for _, o in script], target=key)
        err = None
        try:
            rel[key]
        except Exception as ex:
            err = type(ex).__name__
        rec.detach()
        ops = X._ops_of(rec)
        if err is not None and ops and ops[-1][0] == "r" and ops[-1][1] not in prepop:
            prepop.append(ops[-1][1])
            continue
        break
    return ops, {"err": err, "alias": [], "mutates": []}


def extract(simplify=False):
    prog, start, npaths = {}, {}, {}
    for k in KEYS:
        if k == "gdown":
            continue
        paths, todo, seen = [], [[]], set()
        while todo:
            script = todo.pop()
            ops, leaf = run_path(k, script, simplify)
            tests = [(o[1], o[2]) for o in ops if o[0] == "t"]
            if tuple(tests) in seen:
                continue
            seen.add(tuple(tests))
            paths.append((ops, leaf))
            for i in range(len(script), len(tests)):
                alt = tests[:i] + [(tests[i][0], not tests[i][1])]
                if tuple(alt) not in seen:
                    todo.append(alt)
        nodes, st = X.build_tree(paths)
        prog[k], start[k], npaths[k] = nodes, st, len(paths)
    keys = [k for k in KEYS if k != "gdown"]
    return {"keys": keys, "helpers": [], "prog": prog, "start": start, "npaths": npaths,
            "size": {k: {"units": 1} for k in keys}, "scalar_bytes": 8, "importance1000": {k: 1000 for k in keys}, "opts": {"simplify": simplify}}
