"""Extract the evaluation programs of AurelCore from the current working tree.

For every description key k the function body is executed on a tiny real
instance under every combination of outcomes of the guard tests
('X' in self.data) it evaluates (depth-first over outcome scripts), and the
sequence of cache operations issued by k's own frame is recorded:

    ("r", x)        self[x]              (read through the cache: touch or compute)
    ("d", x)        self.data[x]         (direct read, no touch)
    ("t", x, out)   'x' in self.data     (guard test with its outcome)

The paths of a key are merged into a decision tree (`prog[k]` = list of nodes).
Per leaf the extractor also records what the returned object aliases (shares
memory with a cached entry) and which cached entries the frame wrote to in
place.  Nothing here is cached between runs: the graph always describes the
tree that is checked.
"""
import hashlib
import itertools

import numpy as np

from . import recorder

GRID_N = 6
extra_inputs = set()   # user-only keys (no function) that some path reads
HELPER_CALLS = None  # filled lazily (needs numpy arrays of the right shape)


def tiny_fd(n=GRID_N, order=2):
    import aurel.finitedifference as fdm
    param = {"Nx": n, "Ny": n, "Nz": n, "xmin": -1.25, "ymin": -1.25, "zmin": -1.25,
             "dx": 0.5, "dy": 0.5, "dz": 0.5}
    return fdm.FiniteDifference(param, fd_order=order, verbose=False)


def new_core(fd, **opts):
    import aurel.core as core
    kw = dict(verbose=False, clear_cache_every_nbr_calc=10 ** 9, memory_threshold_inGB=10 ** 6,
              lmax=2)
    kw.update(opts)
    rel = core.AurelCore(fd, **kw)
    # non-degenerate inputs, so that an in-place write changes bytes and every branch computes real numbers
    from . import fields
    for k, v in fields.generic_inputs(fd, 7, "tensors").items():
        rel.data[k] = v.copy()
    return rel


def zero_arg_keys():
    import aurel.core as core
    out = []
    for k in core.descriptions:
        f = getattr(core.AurelCore, k, None)
        if f is not None and hasattr(f, "__code__") and f.__code__.co_argcount == 1:
            out.append(k)
    return out


def digest(v):
    if isinstance(v, np.ndarray):
        return hashlib.sha1(np.ascontiguousarray(v).view(np.uint8)).hexdigest()
    if isinstance(v, (list, tuple)):
        return "L" + "".join(digest(x) for x in v)
    if isinstance(v, dict):
        return "D" + "".join(str(k) + digest(x) for k, x in v.items())
    return repr(v)


def arrays_of(v):
    if isinstance(v, np.ndarray):
        return [v]
    if isinstance(v, (list, tuple)):
        return [a for x in v for a in arrays_of(x)]
    if isinstance(v, dict):
        return [a for x in v.values() for a in arrays_of(x)]
    return []


def shares(v, w):
    for a in arrays_of(v):
        for b in arrays_of(w):
            if a.size and b.size and np.shares_memory(a, b):
                return True
    return False


def _ops_of(rec):
    ops = []
    for e in rec.events:
        if e["ev"] in ("hit", "enter") and e["depth"] == 1:
            ops.append(("r", e["key"]))
        elif e["ev"] == "dread" and e["depth"] == 1:
            ops.append(("d", e["key"]))
        elif e["ev"] == "test" and e["depth"] == 1:
            ops.append(("t", e["key"], e["out"]))
    return ops


def run_path(fd, opts, key, script, computable, shape):
    """Execute key once with the scripted guard outcomes. Returns (ops, leafinfo).

    If the path fails at a read (the nested computation raises, e.g. unbounded recursion, or the key
    is a user-only input), the failing key is made present beforehand - as it would be in a history
    where it is cached - and the path is run again, so that the complete program of the branch is seen."""
    recorder.install()
    prepop = []
    err = None
    for attempt in range(8):
        rel = new_core(fd, **opts)
        for x in [x for x, out in script if out] + prepop:
            if not dict.__contains__(rel.data, x):
                if x in computable:
                    try:
                        rel[x]
                    except Exception:
                        rel.data[x] = np.ones(shape)
                else:
                    rel.data[x] = np.ones(shape)
                    extra_inputs.add(x)
        if dict.__contains__(rel.data, key):
            del rel.data[key]
            rel.last_accessed.pop(key, None)
        before = {k: digest(v) for k, v in dict.items(rel.data)}
        rec = recorder.Recorder(rel, forced=[o for _, o in script], target=key)
        read_objs = {}

        def _on_read(k2, v2, _ro=read_objs):
            if k2 not in _ro:
                _ro[k2] = (v2, digest(v2))
        rec.read_hook = _on_read
        v = None
        try:
            v = rel[key]
            err = None
        except RecursionError:
            err = "RecursionError"
        except Exception as ex:
            err = type(ex).__name__
            import re as _re
            m = _re.search(r"has no attribute '(\w+)'", str(ex))
            if m and m.group(1) not in prepop:
                rec.detach()
                prepop.append(m.group(1))
                continue
        rec.detach()
        ops = _ops_of(rec)
        if err is not None and ops and ops[-1][0] == "r" and ops[-1][1] not in prepop:
            prepop.append(ops[-1][1])
            continue
        break
    leaf = {"err": err, "alias": [], "mutates": []}
    if err is None:
        for k2, v2 in dict.items(rel.data):
            if k2 != key and shares(v, v2):
                leaf["alias"].append(k2)
        # in-place writes by this frame: entries present before whose content changed and that this
        # frame read (nested frames are separate keys with their own leaves)
        read_here = {o[1] for o in ops if o[0] in ("r", "d")}
        for k2, dg in before.items():
            if dict.__contains__(rel.data, k2) and digest(dict.__getitem__(rel.data, k2)) != dg and k2 in read_here:
                leaf["mutates"].append(k2)
        # objects this frame obtained through a read (cached before or computed for it) and then wrote to
        for k2, (obj2, dg2) in read_objs.items():
            if k2 != key and digest(obj2) != dg2 and k2 not in leaf["mutates"]:
                leaf["mutates"].append(k2)
    return ops, leaf


def extract_key(fd, opts, key, computable, shape):
    """DFS over guard outcomes; returns list of (ops, leaf)."""
    paths = []
    todo = [[]]
    seen = set()
    while todo:
        script = todo.pop()
        ops, leaf = run_path(fd, opts, key, script, computable, shape)
        tests = [(o[1], o[2]) for o in ops if o[0] == "t"]
        sig = tuple(tests)
        if sig in seen:
            continue
        seen.add(sig)
        paths.append((ops, leaf))
        # flip every test beyond the scripted prefix
        for i in range(len(script), len(tests)):
            alt = tests[:i] + [(tests[i][0], not tests[i][1])]
            if tuple(alt) not in seen:
                todo.append(alt)
        if len(paths) > 64:
            raise RuntimeError(f"too many guard paths for {key}")
    return paths


def build_tree(paths):
    """Merge paths into a decision tree. Nodes: dict(op, key, next | T, F | leaf...)."""
    nodes = []

    def new(n):
        nodes.append(n)
        return len(nodes)  # 1-based ids

    root = {"_children": {}}

    def insert(ops, leaf):
        cur = root
        for o in ops:
            cur = cur["_children"].setdefault(o, {"_children": {}})
        cur["_leaf"] = leaf

    for ops, leaf in paths:
        insert(ops, leaf)

    def emit(t):
        """Emit subtree t; linear chains are emitted iteratively (paths can have thousands of reads)."""
        first = None
        prev = None          # (node_index, field) to patch with the id of the next node
        while True:
            ch = t["_children"]
            if not ch:
                lf = t.get("_leaf", {"err": "unexplored", "alias": [], "mutates": []})
                me = new({"op": "end", "key": "", "a": 0, "b": 0, "alias": lf["alias"], "mutates": lf["mutates"], "err": lf["err"] or ""})
                nxt = None
            else:
                kinds = {o[0] for o in ch}
                if kinds == {"t"}:
                    keys = {o[1] for o in ch}
                    assert len(keys) == 1, ("ambiguous test", list(ch.keys()))
                    x = next(iter(keys))
                    me = new({"op": "t", "key": x, "a": 0, "b": 0})
                    for fld, outc in (("a", True), ("b", False)):
                        sub = ch.get(("t", x, outc))
                        if sub is not None:
                            nodes[me - 1][fld] = emit(sub)
                        else:
                            nodes[me - 1][fld] = new({"op": "end", "key": "", "a": 0, "b": 0, "alias": [], "mutates": [], "err": "unexplored"})
                    nxt = None
                else:
                    assert len(ch) == 1, ("non-deterministic program", list(ch.keys()))
                    (o, sub), = ch.items()
                    me = new({"op": o[0], "key": o[1], "a": 0, "b": 0})
                    nxt = sub
            if first is None:
                first = me
            if prev is not None:
                nodes[prev - 1]["a"] = me
            if nxt is None:
                return first
            prev = me
            t = nxt

    start = emit(root)
    return nodes, start


def sizes_of(fd, opts, keys):
    """get_size of every key's value in grid-scalar units (exact Fraction-free: bytes and scalar bytes)."""
    from aurel.utils.memory import get_size
    import sys
    rel = new_core(fd, **opts)
    out = {}
    scalar = fd.param["Nx"] * fd.param["Ny"] * fd.param["Nz"] * 8
    for k in keys:
        try:
            v = rel[k]
        except Exception:
            out[k] = {"bytes": 0, "units": 0, "shallow": 0}
            continue
        out[k] = {"bytes": int(get_size(v)), "units": int(round(get_size(v) / scalar)), "shallow": int(sys.getsizeof(v))}
    return out, scalar


def helper_calls(fd, shape):
    """Top-level helper requests: name -> callable(rel)."""
    rng = np.random.default_rng(1)
    s = rng.normal(size=shape) + 3.0
    v3 = rng.normal(size=(3,) + shape)
    v4 = rng.normal(size=(4,) + shape)
    t3 = rng.normal(size=(3, 3) + shape)
    t3 = t3 + np.swapaxes(t3, 0, 1)
    t4 = rng.normal(size=(4, 4) + shape)
    H = {
        "call:s_covd:": lambda r: r.s_covd(s, ""),
        "call:s_covd:u": lambda r: r.s_covd(v3, "u"),
        "call:s_covd:dd": lambda r: r.s_covd(t3, "dd"),
        "call:st_covd:u": lambda r: r.st_covd(v4, v4, "u"),
        "call:s_div:d": lambda r: r.s_div(v3, "d"),
        "call:s_curl:dd": lambda r: r.s_curl(t3, "dd"),
        "call:Lie_beta:s_dd": lambda r: r.Lie_beta(t3, "s_dd", weight=-2 / 3),
        "call:Lie_beta:st_u": lambda r: r.Lie_beta(v4, "st_u"),
        "call:s_to_st": lambda r: r.s_to_st(t3),
        "call:null_ray_expansion": lambda r: r.null_ray_expansion(r.fd.r, direction="out"),
        "call:tetrad_base": lambda r: r.tetrad_base(),
        "call:null_vector_base": lambda r: r.null_vector_base(),
        "call:trace3": lambda r: r.trace3(t3),
        "call:trace4": lambda r: r.trace4(t4),
        "call:tracefree3": lambda r: r.tracefree3(t3),
        "call:magnitude3": lambda r: r.magnitude3(t3),
        "call:magnitude4": lambda r: r.magnitude4(t4),
        "call:norm3": lambda r: r.norm3(v3),
        "call:norm4": lambda r: r.norm4(v4),
        "call:vector_inner_product3": lambda r: r.vector_inner_product3(v3, v3),
        "call:vector_inner_product4": lambda r: r.vector_inner_product4(v4, v4),
        "call:levicivita_down3": lambda r: r.levicivita_down3(),
        "call:levicivita_down4": lambda r: r.levicivita_down4(),
    }
    return H


def extract_helper(fd, opts, name, fn, computable, shape):
    """Helpers run at the top level: depth-0 frame named `name` (pushed by us)."""
    paths = []
    todo = [[]]
    seen = set()
    while todo:
        script = todo.pop()
        rel = new_core(fd, **opts)
        recorder.install()
        for x, out in script:
            if out and not dict.__contains__(rel.data, x):
                if x in computable:
                    rel[x]
                else:
                    rel.data[x] = np.ones(shape)
        rec = recorder.Recorder(rel, forced=[o for _, o in script], target=name)
        rec.stack.append(name)
        err = None
        try:
            fn(rel)
        except Exception as ex:
            err = type(ex).__name__
        rec.detach()
        ops = []
        for e in rec.events:
            if e["ev"] in ("hit", "enter") and e["depth"] == 1:
                ops.append(("r", e["key"]))
            elif e["ev"] == "dread" and e["depth"] == 1:
                ops.append(("d", e["key"]))
            elif e["ev"] == "test" and e["depth"] == 1:
                ops.append(("t", e["key"], e["out"]))
        tests = [(o[1], o[2]) for o in ops if o[0] == "t"]
        if tuple(tests) in seen:
            continue
        seen.add(tuple(tests))
        paths.append((ops, {"err": err, "alias": [], "mutates": []}))
        for i in range(len(script), len(tests)):
            alt = tests[:i] + [(tests[i][0], not tests[i][1])]
            if tuple(alt) not in seen:
                todo.append(alt)
    return paths


def extract(opts=None, with_helpers=True, keys=None):
    """Returns graph dict: {keys, prog, start, size, scalar_bytes, importance1000, helpers}."""
    opts = dict(opts or {})
    fd = tiny_fd()
    shape = (GRID_N,) * 3
    allkeys = zero_arg_keys()
    computable = set(allkeys)
    use = keys or allkeys
    prog, start, npaths = {}, {}, {}
    for k in use:
        paths = extract_key(fd, opts, k, computable, shape)
        nodes, st = build_tree(paths)
        prog[k], start[k], npaths[k] = nodes, st, len(paths)
    helpers = []
    if with_helpers:
        for name, fn in helper_calls(fd, shape).items():
            paths = extract_helper(fd, opts, name, fn, computable, shape)
            nodes, st = build_tree(paths)
            prog[name], start[name], npaths[name] = nodes, st, len(paths)
            helpers.append(name)
    size, scalar = sizes_of(fd, opts, use)
    rel = new_core(fd, **opts)
    imp = {k: int(round(rel.var_importance.get(k, 1.0) * 1000)) for k in use}
    return {"keys": list(use), "helpers": helpers, "prog": prog, "start": start, "npaths": npaths,
            "size": size, "scalar_bytes": scalar, "importance1000": imp, "opts": opts}


# ---------------------------------------------------------------------------
def to_tla(graph, module="CoreGraph", restrict=None):
    """Render the graph as a TLA+ constants module."""
    keys = [k for k in graph["keys"] + graph["helpers"] if restrict is None or k in restrict]
    lines = [f"---- MODULE {module} ----", "EXTENDS Integers, Sequences, TLC", ""]
    q = lambda s: '"' + s + '"'
    lines.append("GKeys == {" + ", ".join(q(k) for k in graph["keys"] if restrict is None or k in restrict) + "}")
    lines.append("GHelpers == {" + ", ".join(q(k) for k in graph["helpers"] if restrict is None or k in restrict) + "}")
    ent = []
    for k in keys:
        ns = []
        for n in graph["prog"][k]:
            extra = ""
            if n["op"] == "end":
                extra = (", alias |-> {" + ", ".join(q(a) for a in n["alias"]) + "}, mut |-> {"
                         + ", ".join(q(a) for a in n["mutates"]) + "}, err |-> " + q(n["err"]))
            else:
                extra = ', alias |-> {}, mut |-> {}, err |-> ""'
            ns.append(f'[op |-> {q(n["op"])}, key |-> {q(n["key"])}, a |-> {n["a"]}, b |-> {n["b"]}{extra}]')
        ent.append(f"  {q(k)} :> <<" + ", ".join(ns) + ">>")
    lines.append("GProg == \n" + " @@\n".join(ent))
    lines.append("GStart == " + " @@ ".join(f"{q(k)} :> {graph['start'][k]}" for k in keys))
    lines.append("GSize == " + " @@ ".join(f"{q(k)} :> {graph['size'][k]['units']}" for k in graph["keys"] if restrict is None or k in restrict))
    lines.append("GImp == " + " @@ ".join(f"{q(k)} :> {graph['importance1000'][k]}" for k in graph["keys"] if restrict is None or k in restrict))
    mk = {}
    for k in keys:
        m = set()
        for n in graph["prog"][k]:
            if n["op"] == "end":
                m |= set(n["mutates"])
        if m:
            mk[k] = m
    lines.append("GMut == " + (" @@ ".join(f"{q(k)} :> {{" + ", ".join(q(a) for a in sorted(v)) + "}" for k, v in sorted(mk.items())) if mk else "<< >>"))
    lines.append("====")
    return "\n".join(lines) + "\n"


if __name__ == "__main__":
    import json, sys, time
    t = time.time()
    g = extract({"vacuum": False})
    print("keys", len(g["keys"]), "helpers", len(g["helpers"]), "paths", sum(g["npaths"].values()),
          "nodes", sum(len(v) for v in g["prog"].values()), "in", round(time.time() - t, 1), "s")
    multi = {k: n for k, n in g["npaths"].items() if n > 1}
    print("guarded:", multi)
    for k, ns in g["prog"].items():
        for n in ns:
            if n["op"] == "end" and (n["mutates"] or n["err"]):
                print("leaf", k, n)
