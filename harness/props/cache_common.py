"""Pipeline shared by C01, C02, C03: extract graph -> TLC (AurelCache) -> replay on real code -> TLC trace validation."""
import json
import random
import time

from .. import cachemodel as M
from .. import extract as X
from ..cache_engine import replay_many
from ..common import Run


def histories_from(res):
    """Unique request histories out of a TLC run (coverage records and finished simulated behaviours)."""
    hs = {}
    for p in res.printed:
        if not isinstance(p, dict):
            continue
        h = p.get("hist") or p.get("done")
        if h:
            hs.setdefault(tuple(h), p)
    return hs


class Plan:
    def __init__(self):
        self.tlc = []      # dicts describing TLC runs
        self.jobs = {}     # (presentation, opts_json, hist, ce, mt, freeze, imp_json) -> source label

    def add_job(self, pres, opts, hist, ce, mt, freeze=True, imp=None, label=""):
        key = (pres, json.dumps(opts, sort_keys=True), tuple(hist), ce, mt, freeze, json.dumps(imp or {}, sort_keys=True))
        self.jobs.setdefault(key, label)


def run_models(run, graph, specs, plan, opts, request_sets=None):
    """specs: list of dict(pres, nreq, ce, mt, policy, requests, simulate, label)."""
    for sp in specs:
        if isinstance(sp.get("requests"), str) and request_sets and sp["requests"] in request_sets:
            sp["requests"] = request_sets[sp["requests"]]
        reqs = sp.get("requests") or (graph["keys"] + graph["helpers"])
        kw = {}
        inv = list(sp.get("invariants") or M.INVARIANTS)
        if sp.get("simulate"):
            kw = dict(simulate=f"num={sp['simulate']}", depth=400000, seed=sp.get("seed", 1))
            inv.append("EmitDone")
        res = M.run_model(graph, M.INPUT_SETS[sp["pres"]], reqs, sp["nreq"], sp["ce"], mem_tiny=sp.get("mt", False),
                          policy=sp.get("policy", "code"), emit=sp.get("emit", True), invariants=inv,
                          freeze=sp.get("freeze", True), coverage=sp.get("coverage", False),
                          allow_freeze=sp.get("allow_freeze", False), spec=sp.get("spec", "Spec"),
                          load=(M.load_keys(sp["pres"]) if sp.get("allow_load") else None),
                          functions=(M.FUNCTION_TOKENS if sp.get("allow_functions") else None),
                          properties=sp.get("properties", M.PROPERTIES), **kw)
        run.add_tlc(res, sp["label"])
        sp["result"] = {"generated": res.generated, "distinct": res.distinct, "violated": res.violated}
        if res.violated:
            # the specification itself admits a bad state: show the history; it is confirmed (or not) on the real code below
            last = res.error_trace[-1] if res.error_trace else {}
            from ..tlc import parse_tla_value
            try:
                hist = list(parse_tla_value(last.get("hist", "<<>>")))
            except Exception:
                hist = []
            try:
                dirty = parse_tla_value(last.get("dirty", "{}"))
                dkeys = sorted({d["k"] for d in dirty})
            except Exception:
                dkeys = []
            # what the user sees next: the entries that were written in place are requested again
            hist = hist + [k for k in dkeys if k not in hist[-1:]]
            sp["result"]["history"] = hist
            run.info.setdefault("model_counterexamples", []).append(
                {"invariant": res.violated, "history": hist, "settings": {k: sp.get(k) for k in ("pres", "ce", "mt", "policy")}})
            if hist:
                plan.add_job(sp["pres"], opts, hist, sp["ce"], sp.get("mt", False), sp.get("freeze", True), label="counterexample:" + res.violated)
        for h, p in histories_from(res).items():
            plan.add_job(sp["pres"], opts, h, sp["ce"], sp.get("mt", False), sp.get("freeze", True), label=sp["label"])
    return specs


def execute(run, pid, graph, plan, opts, seed, max_traces=400, nontrivial_rule=None, readonly_pass=False):
    """Replay every planned history on the real code; report this property's findings; validate traces with TLC."""
    keys = list(plan.jobs)
    jobs = [(k[0], json.loads(k[1]), seed, list(k[2]), k[3], k[4], k[5], json.loads(k[6])) for k in keys]
    t0 = time.time()
    if readonly_pass:
        ro = replay_many([j + (True,) for j in jobs])
        for k, out in zip(keys, ro):
            for fpid, sig, what, rep in out["findings"]:
                if fpid == pid and sig.get("site"):
                    run.violation(sig, what, rep)
        run.info["readonly_pass_histories"] = len(ro)
    outs = replay_many(jobs)
    run.info["replay_wall_s"] = round(time.time() - t0, 1)
    run.info["replayed_histories"] = len(jobs)
    by_group = {}
    n_ev = 0
    for k, out in zip(keys, outs):
        st = out["setting"]
        evs = out["events"]
        n_ev += len(evs)
        nontriv = (out["info"]["nested_evictions"] > 0 or any(e["ev"] == "test" and e["out"] for e in evs)) and len(k[2]) >= 2
        last = k[2][-1]
        branch = tuple((e["key"], e["out"]) for e in evs if e["ev"] == "test")[-6:]
        run.count((last, branch, out["info"]["nested_evictions"] > 0, k[3], k[4], k[0]) if nontriv else None)
        for fpid, sig, what, rep in out["findings"]:
            if fpid == pid:
                run.violation(sig, what, rep)
        by_group.setdefault((k[0], k[5]), []).append((k, evs, out))
        if len(run.samples) < 5 and nontriv:
            run.sample({"history": list(k[2]), "presentation": k[0], "clear_cache_every_nbr_calc": k[3], "mem_tiny": k[4],
                        "events": len(evs), "nested_evictions": out["info"]["nested_evictions"],
                        "first_events": evs[:6]})
    run.info["recorded_events"] = n_ev
    run.info["comparisons_skipped_mixed_onshell_provenance"] = sum(o["info"].get("mixed_onshell_provenance_skipped", 0) for o in outs)
    # ---- trace validation (code -> spec)
    rng = random.Random(seed)
    for (pres, freeze), items in by_group.items():
        if len(items) > max_traces:
            items = rng.sample(items, max_traces)
        traces = [evs for _, evs, _ in items]
        v = M.validate_traces(graph, M.INPUT_SETS[pres], freeze, traces)
        run.add_tlc(v["res"], f"TraceCache {pres} freeze={freeze} ntraces={len(traces)}")
        run.traces += v["accepted"]
        if v["violated"]:
            name, tid, pos = v["violated"]
            k, evs, out = items[tid - 1] if 0 < tid <= len(items) else (None, [], None)
            fpid = {"NoInPlaceWrite": "C02", "CacheNeverWritten": "C01"}.get(name, "C03")
            if fpid == pid and k is not None:
                run.violation({"clause": name, "where": "trace"},
                              f"trace of history {list(k[2])} (clear_cache_every_nbr_calc={k[3]}, mem_tiny={k[4]}) violates {name} at event {pos}: "
                              f"{evs[pos - 2] if 1 < pos <= len(evs) + 1 else ''}",
                              dict(out["setting"], event_index=pos))
        for tid, pos in v["rejected"].items():
            k, evs, out = items[tid - 1]
            nxt = evs[pos - 1] if pos - 1 < len(evs) else None
            run.note_drift(f"trace of history {list(k[2])} ({pres}, ce={k[3]}, mt={k[4]}) stops matching the model at event {pos}: {nxt}")
    return outs


def binding_demo(run, graph, seed):
    """Show that the trace spec is bound to the code: a trace with one corrupted field must be rejected."""
    from ..cache_engine import Engine
    eng = Engine("tensors", {}, seed)
    out = eng.replay(["Hamiltonian", "gdet", "Ktrace"], 2)
    good = out["events"]
    bad1 = [dict(e) for e in good]
    for e in bad1:          # an eviction the code did not log
        if e["ev"] == "exit" and e["evicted"]:
            e["evicted"] = e["evicted"][1:]
            break
    bad2 = [dict(e) for e in good]
    for e in bad2:          # a read of a different key
        if e["ev"] == "hit" and e["depth"] > 0:
            e["key"] = "velx"
            break
    v = M.validate_traces(graph, M.INPUT_SETS["tensors"], True, [good, bad1, bad2])
    if v["violated"]:
        # the demo's own (uncorrupted) trace breaks a named invariant: a finding about the code, not about the demo
        name, tid, pos = v["violated"]
        fpid = {"NoInPlaceWrite": "C02", "CacheNeverWritten": "C01"}.get(name, "C03")
        msg = (f"trace of history ['Hamiltonian', 'gdet', 'Ktrace'] (clear_cache_every_nbr_calc=2) violates {name} at event {pos}"
               + (f": {good[pos - 2]}" if tid == 1 and 1 < pos <= len(good) + 1 else ""))
        if fpid == run.pid and tid == 1:
            run.violation({"clause": name, "where": "trace"}, msg, dict(out["setting"], event_index=pos))
        else:
            run.note_drift("binding demo: " + msg)
        run.add_tlc(v["res"], "binding demo (stopped: the recorded trace violates an invariant)")
        return
    if 1 in v["rejected"] and not v["violated"]:
        # the unmodified trace itself no longer conforms (the code drifted from the model): reported as drift, the demo says nothing
        run.note_drift(f"binding demo: the recorded trace of [Hamiltonian, gdet, Ktrace] stops matching the model at event {v['rejected'][1]}")
        run.add_tlc(v["res"], "binding demo (skipped: the good trace is rejected)")
        return
    ok = (1 not in v["rejected"]) and (2 in v["rejected"]) and (3 in v["rejected"]) and not v["violated"]
    run.add_tlc(v["res"], "binding demo (1 good + 2 corrupted traces)")
    run.info["binding_demo"] = {"good_accepted": 1 not in v["rejected"], "corrupted_eviction_rejected_at": v["rejected"].get(2),
                                "corrupted_read_rejected_at": v["rejected"].get(3)}
    if not ok:
        raise RuntimeError(f"binding demo failed: {v['rejected']} {v['violated']}")


def suite_traces(run, pid, files=("tests/test_aurel_functions.py", "tests/test_over_time.py")):
    """code -> spec on the repository's own tests: every AurelCore instance they create is recorded by a pytest plugin
    kept in /verif (no change to /repo/tests) and its event stream validated by TLC against TraceCache."""
    import os
    import subprocess
    import tempfile
    from ..common import REPO
    out = tempfile.mktemp(prefix="vsuite_", suffix=".json")
    env = dict(os.environ, AUREL_VERIF_TRACE_OUT=out)
    root = os.path.dirname(os.path.dirname(os.path.dirname(os.path.abspath(__file__))))
    env["PYTHONPATH"] = f"{REPO}/src:{root}"
    p = subprocess.run(["/venv/bin/python", "-m", "pytest", "-q", "-p", "no:cacheprovider", "-p", "harness.pytest_plugin", *files],
                       cwd=REPO, env=env, capture_output=True, text=True, timeout=1800)
    if not os.path.exists(out):
        raise RuntimeError("the recording plugin produced no traces:\n" + p.stdout[-800:] + p.stderr[-800:])
    with open(out) as fh:
        tr = json.load(fh)
    os.unlink(out)
    groups = {}
    for t in tr:
        groups.setdefault(json.dumps(t["opts"], sort_keys=True), []).append(t["events"])
    total = acc = 0
    for o, evs in groups.items():
        opts = json.loads(o)
        g = X.extract({"vacuum": opts["vacuum"], "tetrad": opts["tetrad"]})
        v = M.validate_traces(g, [], False, evs)
        run.add_tlc(v["res"], f"TraceCache on the repository's tests, options {opts}: {len(evs)} instances")
        total += len(evs)
        acc += v["accepted"]
        if v["violated"]:
            name, tid, pos = v["violated"]
            fpid = {"NoInPlaceWrite": "C02", "CacheNeverWritten": "C01"}.get(name, "C03")
            if fpid == pid:
                run.violation({"clause": name, "where": "repository test-suite trace"},
                              f"an AurelCore instance of the repository's own tests violates {name} at event {pos}: "
                              f"{evs[tid - 1][max(0, pos - 3):pos] if 0 < tid <= len(evs) else ''}", {"events": evs[tid - 1][:pos + 1] if 0 < tid <= len(evs) else []})
        for tid, pos in v["rejected"].items():
            run.note_drift(f"test-suite trace {tid} (options {opts}) stops matching the model at event {pos}: {evs[tid - 1][pos - 1] if pos - 1 < len(evs[tid - 1]) else None}")
    run.traces += acc
    run.info["repository_test_instances_validated"] = {"instances": total, "accepted": acc, "pytest_tail": p.stdout.strip().splitlines()[-1] if p.stdout.strip() else ""}
