------------------------------- MODULE Interp -------------------------------
(* Interpolation of a grid function onto arbitrary points (property C20,     *)
(* numerical.interpolate): reference semantics in exact rational arithmetic. *)
(*                                                                           *)
(* The grid has N nodes per axis at the integers 0 .. N-1 (the harness maps  *)
(* them affinely to x0 + i h with dyadic x0, h).  A target coordinate is     *)
(* k/4 for an integer k: nodes, quarter points of the cells and points just  *)
(* outside.  Fields are given by their node values.                          *)
(*   Refuse     a target outside [0, N-1] on any axis is refused             *)
(*   Linear     the multilinear interpolant: sum over the corners of the     *)
(*              cell of the product of the one-dimensional hat weights       *)
(* TLC checks on every state that the weights are non-negative and sum to 1, *)
(* that the interpolant reproduces trilinear fields exactly and that at a    *)
(* node it returns the node value of ANY field.                              *)
EXTENDS Integers, Sequences, FiniteSets, Rat, TLC, Json

CONSTANTS N,          \* nodes per axis
          Fields,     \* set of field names
          Emit

VARIABLE st           \* [f, k] with k = <<kx, ky, kz>>: target = k / 4
vars == <<st>>

Quarter == (0 - 1) .. (4 * (N - 1) + 1)
Init == st \in [f : Fields, k : Quarter \X Quarter \X Quarter]
Next == UNCHANGED st
Spec == Init /\ [][Next]_vars

(* node values: trilinear fields with integer coefficients, and one field that is not even polynomial *)
Val(f, i, j, l) ==
    CASE f = "trilinear_a" -> 3 + 2 * i - j + 4 * l + i * j - 2 * i * l + 3 * j * l + i * j * l
      [] f = "trilinear_b" -> (0 - 7) + i * l - 5 * j * l + 2 * i * j * l
      [] f = "linear"      -> 1 + i + 10 * j + 100 * l
      [] f = "rough"       -> ((7 * i + 3 * j * j + 11 * l * l * l + i * j * l * l) % 13) - 6
IsTrilinear(f) == f \in {"trilinear_a", "trilinear_b", "linear"}
(* the same expressions at a rational point (only meaningful for the trilinear fields) *)
RV(n)  == RNorm(n, 4)
At(f, x, y, z) ==
    LET M(a, b) == RMul(a, b)  A(a, b) == RAdd(a, b)  I(n) == RInt(n) IN
    CASE f = "trilinear_a" -> A(I(3), A(M(I(2), x), A(RNeg(y), A(M(I(4), z), A(M(x, y), A(M(I(0 - 2), M(x, z)), A(M(I(3), M(y, z)), M(x, M(y, z)))))))))
      [] f = "trilinear_b" -> A(I(0 - 7), A(M(x, z), A(M(I(0 - 5), M(y, z)), M(I(2), M(x, M(y, z))))))
      [] f = "linear"      -> A(I(1), A(x, A(M(I(10), y), M(I(100), z))))
      [] f = "rough"       -> RZero

Outside(k) == \E a \in 1 .. 3 : k[a] < 0 \/ k[a] > 4 * (N - 1)
(* one-dimensional: lower node of the cell and the weight of the upper node *)
Lo(k)  == IF k = 4 * (N - 1) THEN N - 2 ELSE k \div 4
Wup(k) == RNorm(k - 4 * Lo(k), 4)
W(k, c) == IF c = 1 THEN Wup(k) ELSE RSub(ROne, Wup(k))       \* c = 0: lower corner, c = 1: upper corner
Corners == {0, 1} \X {0, 1} \X {0, 1}
Weight(k, c) == RMul(W(k[1], c[1]), RMul(W(k[2], c[2]), W(k[3], c[3])))
RECURSIVE SumOver(_, _, _)
SumOver(S, k, f) == IF S = {} THEN RZero
                    ELSE LET c == CHOOSE x \in S : TRUE IN
                         RAdd(RMul(Weight(k, c), RInt(Val(f, Lo(k[1]) + c[1], Lo(k[2]) + c[2], Lo(k[3]) + c[3]))), SumOver(S \ {c}, k, f))
Linear(f, k) == SumOver(Corners, k, f)
RECURSIVE WSum(_, _)
WSum(S, k) == IF S = {} THEN RZero ELSE LET c == CHOOSE x \in S : TRUE IN RAdd(Weight(k, c), WSum(S \ {c}, k))
IsNode(k) == \A a \in 1 .. 3 : k[a] % 4 = 0

-----------------------------------------------------------------------------
WeightsArePartitionOfUnity ==
    ~Outside(st.k) => /\ WSum(Corners, st.k) = ROne
                      /\ \A c \in Corners : ~RLess(Weight(st.k, c), RZero)
ExactOnTrilinear ==
    (~Outside(st.k) /\ IsTrilinear(st.f)) => Linear(st.f, st.k) = At(st.f, RV(st.k[1]), RV(st.k[2]), RV(st.k[3]))
ExactAtNodes ==
    (~Outside(st.k) /\ IsNode(st.k)) => Linear(st.f, st.k) = RInt(Val(st.f, st.k[1] \div 4, st.k[2] \div 4, st.k[3] \div 4))

EmitState ==
    Emit => PrintT(ToJson([f |-> st.f, k |-> st.k, refuse |-> Outside(st.k), node |-> IsNode(st.k),
                           value |-> IF Outside(st.k) THEN RZero ELSE Linear(st.f, st.k)]))
=============================================================================
