#!/usr/bin/env python3
"""tools/keep_seed.py <srcdir> <name> <property> <detected:yes|no> <by-which-check/clause> : store a confirmed seeded change under /verif/seeded/<name>/"""
import json, os, shutil, sys
src, name, prop, detected, by = sys.argv[1:6]
dst = os.path.join(os.path.dirname(os.path.dirname(os.path.abspath(__file__))), "seeded", name)
os.makedirs(dst, exist_ok=True)
for f in ("patch.diff", "demo.py"):
    shutil.copy(os.path.join(src, f), os.path.join(dst, f))
meta = {}
try:
    meta = json.load(open(os.path.join(src, "meta.json")))
except Exception:
    pass
meta.update({"property": prop,
             "confirmed": "tools/verify_seed.sh: demo exits 0 on clean tree, non-zero on changed tree; 510 pinned tests pass with the change",
             "ran": f"tools/try_seed.sh seeded/{name} {prop} quick",
             "detected": detected, "detected_by": by})
json.dump(meta, open(os.path.join(dst, "meta.json"), "w"), indent=1)
print("kept", dst)
