"""pytest plugin (loaded with -p harness.pytest_plugin, no change to /repo/tests): records the cache events of every
AurelCore instance the repository's own tests create and writes them to $AUREL_VERIF_TRACE_OUT as JSON."""
import json
import os

from . import recorder

_RECS = []


def pytest_configure(config):
    import aurel.core as core
    recorder.install()
    orig_init = core.AurelCore.__init__

    def init(self, fd, **kw):
        orig_init(self, fd, **kw)
        rec = recorder.Recorder(self)
        _RECS.append((rec, {"vacuum": bool(getattr(self, "vacuum", False)), "tetrad": getattr(self, "tetrad", "quasi-Kinnersley")}))
    core.AurelCore.__init__ = init


def pytest_sessionfinish(session, exitstatus):
    out = os.environ.get("AUREL_VERIF_TRACE_OUT")
    if not out:
        return
    keep = ("ev", "key", "depth", "out", "count", "evicted", "aged_removed", "ndata", "naged", "exc", "frozen")
    traces = []
    for rec, opts in _RECS:
        evs = [{k: e[k] for k in keep if k in e} for e in rec.events]
        if evs:
            traces.append({"opts": opts, "events": evs})
    with open(out, "w") as fh:
        json.dump(traces, fh)
