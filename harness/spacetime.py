"""Spacetimes given by exact jets (3+1 form), for the ThreePlusOne oracle and for the real code."""
import itertools
from fractions import Fraction as F
from random import Random

import numpy as np

from . import jets as J

SYM = [(0, 0), (0, 1), (0, 2), (1, 1), (1, 2), (2, 2)]
CLASSES = [
    # (shift, lapse, metric, time dependence of gamma i.e. K)
    {"name": "generic", "shift": "varying", "lapse": "time-dependent", "metric": "non-diagonal", "K": "nonzero"},
    {"name": "zero-shift", "shift": "zero", "lapse": "varying", "metric": "non-diagonal", "K": "nonzero"},
    {"name": "unit-lapse", "shift": "varying", "lapse": "one", "metric": "non-diagonal", "K": "nonzero"},
    {"name": "diagonal", "shift": "varying", "lapse": "time-dependent", "metric": "diagonal", "K": "nonzero"},
    {"name": "static", "shift": "zero", "lapse": "varying", "metric": "non-diagonal", "K": "zero"},
    {"name": "const-shift", "shift": "constant", "lapse": "const", "metric": "non-diagonal", "K": "nonzero"},
    {"name": "badly-scaled", "shift": "varying", "lapse": "time-dependent", "metric": "scaled", "K": "nonzero"},
    {"name": "z-shift", "shift": "z-only", "lapse": "time-dependent", "metric": "non-diagonal", "K": "nonzero"},
    {"name": "minkowski-like", "shift": "zero", "lapse": "one", "metric": "identity", "K": "zero"},
]


def rnd(rng, scale=4):
    return F(rng.randint(-scale, scale), 8)


def rand_jet(rng, c0, lin=True, quad=True, tdep=True, amp=1):
    j = J.Jet({(0, 0, 0, 0): c0})
    for m in J.MONS:
        d = sum(m)
        if d == 0:
            continue
        if m[0] > 0 and not tdep:
            continue
        if (d == 1 and lin) or (d == 2 and quad):
            j.c[m] = rnd(rng) * amp
    return j


def make_case(cls, seed):
    """Returns dict with exact jets of alpha, beta^i, gamma_ij and auxiliary test tensors."""
    rng = Random(seed * 7919 + sum(ord(ch) for ch in cls["name"]))
    d = [F(1), F(2), F(3, 2), F(1, 2)][seed % 4] if cls["metric"] != "identity" else F(1)
    if cls["metric"] == "scaled":
        d = [F(3), F(1, 3)][seed % 2]
    # gamma at the probe: d^2 L L^T (det = d^6: square root d^3 and cube root d^2 are rational)
    if cls["metric"] in ("diagonal", "identity"):
        L = [[1, 0, 0], [0, 1, 0], [0, 0, 1]]
    else:
        a, b, c = [F(rng.randint(-2, 2), 2) for _ in range(3)]
        if a == b == c == 0:
            a = F(1, 2)
        L = [[1, 0, 0], [a, 1, 0], [b, c, 1]]
    g0 = [[d * d * sum(F(L[i][k]) * F(L[j][k]) for k in range(3)) for j in range(3)] for i in range(3)]
    tdep = cls["K"] == "nonzero"
    gam = {}
    for (i, j) in SYM:
        if cls["metric"] == "identity":
            gam[(i, j)] = J.Jet({(0, 0, 0, 0): g0[i][j]})
        elif cls["metric"] == "diagonal" and i != j:
            gam[(i, j)] = J.Jet()
        else:
            gam[(i, j)] = rand_jet(rng, g0[i][j], tdep=tdep, amp=d * d)
    lapse = cls["lapse"]
    a0 = {"one": F(1), "const": F(3, 2)}.get(lapse, F(5, 4))
    alpha = rand_jet(rng, a0, lin=lapse in ("varying", "time-dependent"), quad=lapse in ("varying", "time-dependent"),
                     tdep=lapse == "time-dependent")
    beta = []
    for i in range(3):
        if cls["shift"] == "zero" or (cls["shift"] == "z-only" and i < 2):
            beta.append(J.Jet())
        elif cls["shift"] == "constant":
            beta.append(J.Jet({(0, 0, 0, 0): F(rng.choice([-2, -1, 1, 2]), 8)}))
        else:
            beta.append(rand_jet(rng, F(rng.choice([-2, -1, 1, 2]), 8)))
    case = {"cls": cls["name"], "seed": seed, "alpha": alpha, "beta": beta, "gam": gam, "lam": [F(0), F(1, 5)][seed % 2],
            "sd": d ** 3, "cr": d * d,
            "phi": rand_jet(rng, F(3, 4), tdep=False), "vec": [rand_jet(rng, rnd(rng), tdep=False) for _ in range(3)],
            "ten": [rand_jet(rng, rnd(rng), tdep=False) for _ in range(9)], "vec4": [rand_jet(rng, rnd(rng)) for _ in range(4)]}
    return case


def res(x, p):
    x = F(x)
    return int(x.numerator % p) * pow(int(x.denominator % p), p - 2, p) % p


def case_tla(case, p):
    seq = J.tla_seq
    return ("[alpha |-> " + seq(case["alpha"].residues(p))
            + ", beta |-> <<" + ", ".join(seq(b.residues(p)) for b in case["beta"]) + ">>"
            + ", gam |-> <<" + ", ".join(seq(case["gam"][k].residues(p)) for k in SYM) + ">>"
            + f", lam |-> {res(case['lam'], p)}, sd |-> {res(case['sd'], p)}, cr |-> {res(case['cr'], p)}"
            + ", phi |-> " + seq(case["phi"].residues(p))
            + ", vec |-> <<" + ", ".join(seq(b.residues(p)) for b in case["vec"]) + ">>"
            + ", ten |-> <<" + ", ".join(seq(b.residues(p)) for b in case["ten"]) + ">>"
            + ", vec4 |-> <<" + ", ".join(seq(b.residues(p)) for b in case["vec4"]) + ">>]")


def cases_tla(cases, p):
    return "<<" + ", ".join(case_tla(c, p) for c in cases) + ">>"


# ---------------------------------------------------------------------------
# the same spacetime as fields on a grid, for the real code
class Fields:
    def __init__(self, case, fd, probe_index):
        """probe_index: grid index (ix, iy, iz) of the probe point; jets are expansions around it, t = 0 on the slice."""
        self.case = case
        x0 = fd.xarray[probe_index[0]]
        y0 = fd.yarray[probe_index[1]]
        z0 = fd.zarray[probe_index[2]]
        self.X = (0.0, fd.x - x0, fd.y - y0, fd.z - z0)
        self.shape = fd.x.shape

    def ev(self, jet):
        v = jet(*self.X)
        return v * np.ones(self.shape) if np.ndim(v) == 0 else v

    def sym3(self, d):
        out = np.zeros((3, 3) + self.shape)
        for (i, j) in SYM:
            out[i, j] = out[j, i] = self.ev(d[(i, j)])
        return out

    def inputs(self):
        c = self.case
        gam = self.sym3(c["gam"])
        alpha = self.ev(c["alpha"])
        beta = np.array([self.ev(b) for b in c["beta"]])
        dtgam = self.sym3({k: v.d(0) for k, v in c["gam"].items()})
        dgam = np.array([self.sym3({k: v.d(m) for k, v in c["gam"].items()}) for m in (1, 2, 3)])   # [k, i, j]
        dbeta = np.array([[self.ev(b.d(m)) for b in c["beta"]] for m in (1, 2, 3)])                  # [i, k] = d_i beta^k
        lie = (np.einsum("k...,kij...->ij...", beta, dgam) + np.einsum("kj...,ik...->ij...", gam, dbeta)
               + np.einsum("ik...,jk...->ij...", gam, dbeta))
        K = -(dtgam - lie) / (2 * alpha)
        return {"gammadown3": gam, "Kdown3": K, "alpha": alpha, "betaup3": beta,
                "dtalpha": self.ev(c["alpha"].d(0)), "dtbetaup3": np.array([self.ev(b.d(0)) for b in c["beta"]])}


# ---------------------------------------------------------------------------
# exact vacuum solutions at rational points (for the vacuum=True shortcuts)
def _jet_of_expr(expr, syms, point):
    import sympy as sp
    j = J.Jet()
    xi = sp.symbols("xi0:4")
    for m in J.MONS:
        d = expr
        for k in range(4):
            for _ in range(m[k]):
                d = sp.diff(d, syms[k])
        val = sp.nsimplify(sp.simplify(d.subs({syms[k]: point[k] for k in range(4)})))
        fact = 1
        for k in range(4):
            for q in range(1, m[k] + 1):
                fact *= q
        val = sp.Rational(val) / fact
        assert val.is_Rational, (m, val)
        j.c[m] = F(int(val.p), int(val.q))
    return j


def vacuum_cases(seed=0):
    """Schwarzschild in Painleve-Gullstrand coordinates (alpha = 1, flat slices, shift != 0, K != 0) and in isotropic
    coordinates (lapse != 1, conformally flat), expanded around points where every 2-jet is rational."""
    import sympy as sp
    t, x, y, z = sp.symbols("t x y z", real=True)
    syms = (t, x, y, z)
    out = []
    rng = Random(900 + seed)
    # Painleve-Gullstrand: r0 = 7/10 at (2, 3, 6)/10, 2M/r0 = 1/4
    pt = (0, sp.Rational(2, 10), sp.Rational(3, 10), sp.Rational(6, 10))
    r = sp.sqrt(x ** 2 + y ** 2 + z ** 2)
    Mpg = sp.Rational(7, 80)
    beta = [sp.sqrt(2 * Mpg / r) * c / r for c in (x, y, z)]
    case = {"cls": "vacuum-PG", "seed": seed, "alpha": J.Jet.const(1), "beta": [_jet_of_expr(b, syms, pt) for b in beta],
            "gam": {k: J.Jet.const(1 if k[0] == k[1] else 0) for k in SYM}, "lam": F(0), "sd": F(1), "cr": F(1), "vacuum": True}
    out.append(case)
    # isotropic: rho0 = 3/2 at (1, 1/2, 1), M = 1  ->  psi = 1 + M/(2 rho) = 4/3
    pt2 = (0, sp.Integer(1), sp.Rational(1, 2), sp.Integer(1))
    Mi = sp.Integer(1)
    psi = 1 + Mi / (2 * r)
    al = (1 - Mi / (2 * r)) / (1 + Mi / (2 * r))
    gam = {k: _jet_of_expr(psi ** 4, syms, pt2) if k[0] == k[1] else J.Jet() for k in SYM}
    p0 = F(4, 3)
    case2 = {"cls": "vacuum-isotropic", "seed": seed, "alpha": _jet_of_expr(al, syms, pt2), "beta": [J.Jet(), J.Jet(), J.Jet()],
             "gam": gam, "lam": F(0), "sd": p0 ** 6, "cr": p0 ** 4, "vacuum": True}
    out.append(case2)
    # Minkowski sliced by T = t + h(t, x, y, z) (h cubic, grad h = 0 at the point): vacuum with lapse != 1, shift != 0, K != 0 and - unlike
    # the two slicings above - a 3-Ricci scalar R = K_ij K^ij - K^2 that does not vanish
    pt3 = (0, 0, 0, 0)
    q = lambda a, b: sp.Rational(a, b)
    h = (q(1, 8) * t + q(1, 4) * x * x - q(1, 8) * y * y + q(3, 8) * z * z + q(1, 4) * x * y - q(1, 8) * y * z + q(1, 8) * t * x + q(1, 4) * t * z
         + q(1, 8) * t * t + q(1, 8) * x * x * y - q(1, 8) * t * y * z + q(1, 8) * t * t * x + q(1, 16) * z * z * z - q(1, 8) * t * x * x)
    ht = sp.diff(h, t)
    hi = [sp.diff(h, c) for c in (x, y, z)]
    s2 = sum(c * c for c in hi)
    gam3 = {k: _jet_of_expr((1 if k[0] == k[1] else 0) - hi[k[0]] * hi[k[1]], syms, pt3) for k in SYM}
    case3 = {"cls": "vacuum-minkowski-gauge", "seed": seed, "alpha": _jet_of_expr((1 + ht) / sp.sqrt(1 - s2), syms, pt3),
             "beta": [_jet_of_expr(-(1 + ht) * c / (1 - s2), syms, pt3) for c in hi], "gam": gam3, "lam": F(0), "sd": F(1), "cr": F(1), "vacuum": True}
    out.append(case3)
    for c in out:
        c["phi"] = rand_jet(rng, F(3, 4), tdep=False)
        c["vec"] = [rand_jet(rng, rnd(rng), tdep=False) for _ in range(3)]
        c["ten"] = [rand_jet(rng, rnd(rng), tdep=False) for _ in range(9)]
        c["vec4"] = [rand_jet(rng, rnd(rng)) for _ in range(4)]
    return out
