--------------------------------- MODULE Fp ---------------------------------
(* Arithmetic in the prime field F_P, P < 46341 so that products stay below  *)
(* 2^31 (TLC integers are 32 bit).  Every model that needs exact rational    *)
(* arithmetic on numbers too large for TLC is run once per prime of a fixed  *)
(* list; the harness lifts the residues back to Q (CRT + rational            *)
(* reconstruction).  All operators are prefix: a % P + b is a precedence     *)
(* conflict in TLA+.                                                         *)
EXTENDS Integers

CONSTANT P

Rd(a)    == ((a % P) + P) % P
Ad(a, b) == (a + b) % P
Sb(a, b) == (a - b + P) % P
Mu(a, b) == (a * b) % P
Ng(a)    == (P - a) % P

RECURSIVE PowM(_, _)
PowM(a, e) == IF e = 0 THEN 1
              ELSE LET h == PowM(a, e \div 2) hh == Mu(h, h)
                   IN  IF e % 2 = 1 THEN Mu(hh, a) ELSE hh
Inv(a)   == PowM(a, P - 2)          \* Fermat; Inv(0) = 0 marks an unlucky prime (callers test the divisor)
Dv(a, b) == Mu(a, Inv(b))
Half     == Inv(2)
=============================================================================
