"""C03: frozen inputs are never evicted; clean-up keeps its bookkeeping consistent and terminates."""
import json

from .. import cachemodel as M
from .. import extract as X
from ..common import Run
from . import cache_common as CC

SMALL = ["gammadet", "gdet", "betamag", "gtt", "nup4", "gdown4"]


def specs_for(tier, seed, graph):
    s = [
        # safety layer: ANY set of unfrozen entries older than one calculation may go at any clean-up point
        dict(pres="components", nreq=3, ce=2, policy="any", requests=SMALL, emit=False, allow_freeze=True, allow_load=True, allow_functions=True, coverage=True,
             label="safety layer (any eviction), metric sub-graph, 3 requests incl. freeze_data / load_data between, ce=2"),
        dict(pres="components", nreq=2, ce=1, policy="any", requests=SMALL, emit=False,
             label="safety layer (any eviction), metric sub-graph, 2 requests, ce=1"),
        # the code's policy on the real graph, most aggressive settings
        dict(pres="tensors", nreq=2, ce=1, mt=True, label="real graph, tensors, 2 requests exhaustive, ce=1 and memory threshold tiny"),
        dict(pres="components", nreq=1, ce=1, label="real graph, components, 1 request, ce=1"),
        dict(pres="minimal", nreq=1, ce=2, mt=True, label="real graph, minimal, 1 request, ce=2 mem tiny"),
        dict(pres="tensors", nreq=6, ce=1, simulate=6, seed=seed + 1, emit=False, allow_freeze=True, allow_load=True, allow_functions=True,
             label="simulate 6 requests ce=1 with freeze_data / load_data / method fetches between"),
        dict(pres="components", nreq=6, ce=3, mt=True, simulate=6, seed=seed + 2, emit=False, label="simulate 6 requests ce=3 mem tiny"),
        dict(pres="tensors", nreq=6, ce=2, freeze=False, allow_freeze=True, allow_load=True, simulate=4, seed=seed + 3, emit=False,
             label="simulate: inputs NOT frozen first, freeze_data / load_data later (only what is frozen is asserted)"),
        dict(pres="components", nreq=5, ce=2, allow_load=True, allow_functions=True, simulate=6, seed=seed + 6, emit=False,
             label="simulate 5 requests ce=2 with a load_data call that carries only part of the frozen inputs"),
    ]
    if tier == "thorough":
        s += [
            dict(pres="components", nreq=4, ce=2, policy="any", requests=SMALL, emit=False, allow_freeze=True,
                 label="safety layer, 4 requests incl. freeze, ce=2"),
            dict(pres="components", nreq=2, ce=2, mt=True, label="real graph, components, 2 requests exhaustive, ce=2 mem tiny"),
            dict(pres="minimal", nreq=2, ce=1, label="real graph, minimal, 2 requests exhaustive, ce=1"),
            dict(pres="tensors", nreq=15, ce=1, mt=True, simulate=40, seed=seed + 4, emit=False, allow_freeze=True, allow_load=True, label="simulate 15 requests mem tiny"),
            dict(pres="components", nreq=25, ce=5, simulate=40, seed=seed + 5, emit=False, allow_freeze=True, allow_load=True, label="simulate 25 requests ce=5"),
        ]
    return s


def liveness(run, graph):
    """Every request is eventually answered (no unbounded evaluation) - on the small sub-graph, fair spec."""
    res = M.run_model(graph, M.INPUT_SETS["components"], SMALL, 2, 2, policy="any", emit=False,
                      invariants=["NoReentrancy"], properties=["Terminates"], spec="FairSpec")
    run.add_tlc(res, "liveness: Terminates under weak fairness, safety layer, metric sub-graph")
    if res.violated:
        run.info["liveness_violated"] = res.violated
        raise RuntimeError("the cache specification admits a non-terminating evaluation: " + str(res.violated))


def importance_jobs(plan, opts, graph, seed):
    """C03 quantifies over var_importance overrides: computed keys with importance 0 behave like frozen ones,
    huge importances make everything else go at the first opportunity."""
    import random
    rng = random.Random(seed)
    inputs = {k for v in M.INPUT_SETS.values() for k in v}
    keys = [k for k in graph["keys"] if k not in inputs]
    for i in range(24):
        hist = [rng.choice(keys) for _ in range(5)]
        keep = rng.sample(keys, 6)
        imp = {k: 0 for k in keep}
        imp.update({k: 1e6 for k in rng.sample(keys, 30) if k not in imp})
        plan.add_job(rng.choice(["tensors", "components"]), opts, hist, rng.choice([1, 2, 3]), rng.random() < 0.5, True, imp, label="importance overrides")


def drivers(run, plan, opts, seed, tier):
    """Freezing through load_data and through the time-series driver."""
    import json as _json
    import random
    from ..cache_engine import Engine
    from .. import overtime_engine as O
    from . import c14
    rng = random.Random(seed)
    keys = list(plan.jobs)
    rng.shuffle(keys)
    n = 0
    engines = {}
    for k in keys[: (60 if tier == "quick" else 600)]:
        eng = engines.setdefault(k[0], Engine(k[0], opts, seed))
        out = eng.replay(list(k[2]), k[3], k[4], True, loader="load_data")
        n += 1
        for pid, sig, what, rep in out["findings"]:
            if pid == "C03":
                run.violation(dict(sig, via="load_data"), what + " [inputs loaded with load_data]", rep)
    run.info["load_data_replays"] = n
    res = O.pmap(O.check_behaviour, c14.driver_jobs() + requested_input_jobs())
    for fnds in res:
        for pid, sig, what, rep in fnds:
            if pid == "C03":
                run.violation(sig, what, rep)
            elif pid == "C14" and sig.get("clause") == "InputsPreserved":
                # a supplied column that comes back changed was recomputed from the defaults instead of being loaded and frozen
                run.violation({"clause": "InputsNotReplacedByDefaults", "via": "over_time"},
                              what + " [the time-series driver must load and freeze every supplied column]", rep)
    run.info["over_time_driver_runs"] = len(res)
    run.traces += n + len(res)


def requested_input_jobs():
    """over_time asked for a built-in variable that the table already supplies: the column is an input and stays one."""
    from .. import overtime_engine as O
    jobs = []
    for order in ([2, 1, 3], [1, 2, 3]):
        cols = [{"kind": "in", "name": c, "of": "", "e": ""} for c in O.IN_SCALARS + O.IN_OTHERS] + [{"kind": "var", "name": "gammadet", "of": "", "e": ""}]
        cols += [{"kind": "est", "name": c + "_max", "of": c, "e": "max"} for c in O.IN_SCALARS + ["gammadet"]]
        jobs.append(({"hist": [{"op": "call", "vars": ["alpha", "gammadet"], "ests": ["max"]}], "init_order": order, "tkeys": ["it"], "cols": cols,
                      "sorted": True, "admissible": True, "wantV": ["alpha", "gammadet"], "wantE": ["max"]}, {"clear_cache_every_nbr_calc": 2}))
    return jobs


def cleanup_model(run, tier, seed):
    """spec/cache/Cleanup.tla: one cleanup_cache() call with the real byte arithmetic - every threshold between 'never reached' and
    'below the inputs', every importance, ties - checked by TLC and every terminal state executed on the real function."""
    from .. import cleanup_engine as CE
    jobs = [dict(variant=seed % 2, order=[2, 0, 3, 1], sinces=[-2, -1, 1, 2, 6], ces=[1, 3], counts=[6])]
    if tier == "thorough":
        jobs = [dict(variant=0, order=[2, 0, 3, 1], sinces=[-2, -1, 0, 1, 2, 6], ces=[1, 3], counts=[6, 7]),
                dict(variant=1, order=[0, 1, 2, 3], sinces=[-2, -1, 0, 1, 2, 6], ces=[1, 3], counts=[6, 7]),
                dict(variant=2, order=[4, 2, 0, 3, 1], sinces=[-2, -1, 1, 2, 6], ces=[1, 3], counts=[6]),
                dict(variant=3, order=[1, 0, 4, 2, 3], sinces=[-2, -1, 1, 2, 5], ces=[2, 20], counts=[20])]
    total = 0
    shapes = {}
    drifted = set()
    for jb in jobs:
        res, objs, order = CE.run_model(**jb)
        if res.violated:
            raise RuntimeError(f"Cleanup.tla violates {res.violated} (the model of cleanup_cache breaks a C03 clause): {jb}")
        run.add_tlc(res, f"Cleanup.tla: one cleanup_cache call, objects {list(objs)}, age-table order {order}, since in {jb['sinces']}, "
                         f"clear_every in {jb['ces']}, count in {jb['counts']}, {len(CE.thresholds(objs))} memory thresholds")
        for st in res.printed:
            out = CE.replay_state(st, objs, order)
            total += 1
            kind = (len(st["removed"]), st["npass"], bool(st["frozen"]), st["thr"] == 0)
            shapes[kind] = shapes.get(kind, 0) + 1
            run.count(("cleanup", jb["variant"]) + kind if st["removed"] else None)
            if total <= 2 and st["removed"]:
                run.sample({"cleanup_state": st})
            for clause, msg in out:
                text = (f"cleanup_cache() on {{key: calculations since last access}} = {st['since']} (-2 not cached, -1 no age entry), frozen {st['frozen']}, "
                        f"memory threshold {st['thr']} bytes, clear_cache_every_nbr_calc={st['ce']}, calculation_count={st['count']}: {msg}")
                if clause in ("FrozenNeverEvicted", "FrozenNeverAltered", "AgeTableSubsetOfCache", "CleanupNeverRaises", "CleanupTerminates"):
                    run.violation({"clause": clause, "via": "cleanup_cache"}, text, {"cleanup_state": st, "objects": jb["variant"], "order": order})
                elif clause not in drifted:
                    # which unfrozen entries go, and in which order, is the code's policy, not the property: the model no longer describes it
                    drifted.add(clause)
                    run.note_drift(f"Cleanup.tla no longer predicts cleanup_cache ({clause}): " + text)
    # liveness: the while loop of the memory phase ends (weak fairness), smaller alphabet
    res, _, _ = CE.run_model(1, [3, 2, 1, 0], [-2, 1, 2, 6], [1, 3], [6], emit=False, liveness=True)
    if res.violated:
        raise RuntimeError(f"Cleanup.tla: {res.violated} violated under fairness (the model's memory loop does not terminate)")
    run.add_tlc(res, "Cleanup.tla liveness: Terminates under weak fairness")
    never = [a for a in ("Enter", "Pass1", "Recount", "LoopExit", "LoopRemove") if res.coverage.get(a, (0, 0))[1] == 0]
    if never:
        raise RuntimeError(f"vacuous Cleanup.tla run: actions never taken: {never}")
    run.info["cleanup_calls_replayed"] = total
    run.info["cleanup_outcome_classes"] = len(shapes)
    run.traces += total


def run(tier, seed):
    run = Run("C03", tier, seed)
    opts = {}
    graph = X.extract(opts)
    plan = CC.Plan()
    sps = specs_for(tier, seed, graph)
    # entries that some function body writes in place, and the writers: with freeze_data() allowed between the requests TLC finds a
    # history in which the written entry is frozen first (FrozenNeverAltered); empty - and skipped - when nothing writes in place
    mk = {}
    for k, ns in graph["prog"].items():
        m = set()
        for nd in ns:
            if nd["op"] == "end":
                m |= set(nd.get("mutates", []))
        if m:
            mk[k] = m
    mut = sorted((set(mk) | {x for v in mk.values() for x in v}) & set(graph["keys"] + graph["helpers"]))
    if mut:
        sps.append(dict(pres="tensors", nreq=2, ce=1000, requests=mut, allow_freeze=True, emit=False,
                        invariants=["FrozenNeverAltered", "FrozenNeverEvicted", "AgeTableSubsetOfCache"],
                        properties=["OnlyWholeUnfrozenEntries", "CountMonotone", "LoadKeepsFrozen"],
                        label="real graph: in-place writers and what they write, 2 requests with freeze_data between, nothing evicted"))
    specs = CC.run_models(run, graph, [dict(sp, properties=sp.get("properties", M.PROPERTIES + ["AbsSafety"])) for sp in sps], plan, opts)
    run.info["tlc_models"] = [{k: v for k, v in sp.items() if k != "requests"} for sp in specs]
    # vacuity: the actions the invariants talk about must have been taken in the exhaustive safety-layer run
    never = [a for a in ("Request", "RequestFunction", "Freeze", "Load", "StepRead", "StepTest", "Return") if run.coverage_actions.get(a, (0, 0))[1] == 0]
    if never:
        raise RuntimeError(f"vacuous model run: actions never taken: {never}")
    liveness(run, graph)
    from .. import apalache
    ind = apalache.check_inductive()
    run.info["apalache_inductive_invariant"] = {k: v for k, v in ind.items() if k != "tail"}
    if not (ind["base"] and ind["step"] and ind["negative_control_rejected"]):
        raise RuntimeError("Apalache: IndInv of CacheSafety is not established: " + str(ind))
    cleanup_model(run, tier, seed)
    importance_jobs(plan, opts, graph, seed)
    CC.execute(run, "C03", graph, plan, opts, seed, max_traces=500 if tier == "quick" else 4000)
    drivers(run, plan, opts, seed, tier)
    CC.suite_traces(run, "C03")
    CC.binding_demo(run, graph, seed)
    run.rule = ("behaviours of AurelCache (safety layer with arbitrary eviction on a dependency-closed sub-graph; the code's policy on the graph "
                "extracted from the working tree with clear_cache_every_nbr_calc in {1,2,3} and a memory threshold below the inputs; freeze_data and "
                "partial load_data calls between requests; random importance overrides) replayed on the real AurelCore; after every request: frozen entries present and "
                "byte-identical, last_accessed subset of data, no exception from cleanup_cache, wall-clock guard; every nested step checked by TLC "
                "trace validation against the named invariants. Cleanup.tla: every situation one cleanup_cache() call can start from (4-5 real objects of different kinds; "
                "cached / aged / frozen; 8 memory thresholds from 0 to 1 GB; regular clean-up due or not) with the real byte counts as constants - 12 invariants, "
                "termination, and every terminal state executed on the real function (cached set, age table, deletion order, survivors untouched). Non-trivial = >= 2 requests with >= 1 eviction or guard hit")
    run.assumptions = ["memory threshold 'tiny' = 1e-9 GB (below the size of the frozen inputs): the while loop of cleanup_cache runs to its end at every calculation",
                       "liveness is checked on the small sub-graph only; on the real graph non-termination is caught by NoReentrancy/StackBounded and the wall-clock guard"]
    return run.finish()


def replay(path):
    from ..cache_engine import Engine
    with open(path) as fh:
        r = json.load(fh)["replay"]
    eng = Engine(r["presentation"], r["opts"], r["seed"])
    out = eng.replay(r["history"], r["clear_every"], r["mem_tiny"], r["freeze"], importance=r.get("importance"))
    bad = [f for f in out["findings"] if f[0] == "C03"]
    for f in bad:
        print(f[1], f[2])
    return 1 if bad else 0
