"""Inductive-invariant check of spec/cache/CacheSafety.tla with Apalache (unbounded in the number of requests)."""
import os
import shutil
import subprocess
import tempfile

HERE = os.path.dirname(os.path.dirname(os.path.abspath(__file__)))


def _run(workdir, init, length, module="MC_CacheSafetyApa.tla"):
    out = tempfile.mkdtemp(prefix="vapa_")
    try:
        p = subprocess.run(["apalache-mc", "check", "--cinit=ConstInit", f"--init={init}", "--inv=IndInv", "--next=ANext",
                            f"--length={length}", f"--out-dir={out}", module],
                           cwd=workdir, capture_output=True, text=True, timeout=900)
        txt = p.stdout + p.stderr
        return ("The outcome is: NoError" in txt and "EXITCODE: OK" in txt), txt[-1500:]
    finally:
        shutil.rmtree(out, ignore_errors=True)


def check_inductive():
    """Returns dict(base=bool, step=bool, negative_control_rejected=bool)."""
    work = tempfile.mkdtemp(prefix="vapaw_")
    try:
        for f in ("CacheSafety.tla", "MC_CacheSafetyApa.tla"):
            shutil.copy(os.path.join(HERE, "spec", "cache", f), work)
        base, t1 = _run(work, "AInit", 0)
        step, t2 = _run(work, "IndInit", 1)
        # negative control: a clean-up that may also remove frozen entries must break the induction step
        src = open(os.path.join(work, "CacheSafety.tla")).read()
        bad = src.replace("(frozen \\cup recent')", "recent'")
        assert bad != src
        open(os.path.join(work, "CacheSafety.tla"), "w").write(bad)
        neg, t3 = _run(work, "IndInit", 1)
        return {"base": base, "step": step, "negative_control_rejected": not neg, "tail": (t1 if not base else t2 if not step else "")[-600:]}
    finally:
        shutil.rmtree(work, ignore_errors=True)
