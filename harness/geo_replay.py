"""Probe-point comparison of the real AurelCore with the exact ThreePlusOne oracle."""
import json
import multiprocessing as mp
import time
from fractions import Fraction

import numpy as np

from . import fields, geo_engine as GE, jets as J, spacetime as ST

SPACING = {2: 1e-3, 4: 1e-2, 6: 2e-2, 8: 2e-2}
TOL = {2: 2e-4, 4: 2e-5, 6: 2e-5, 8: 2e-5}
KAPPA = 8 * np.pi

ORACLE_FIELDS = ["gdown4", "gup4", "gdet", "gammaup3", "gammadet", "st_Gamma_udd4", "st_Riemann_down4", "st_Riemann_uddd4",
                 "st_Riemann_uudd4", "st_Ricci_down4", "st_RicciS", "Einsteindown4", "Kretschmann", "st_Weyl_down4",
                 "s_Gamma_udd3", "s_Riemann_uddd3", "s_Riemann_down3", "s_Ricci_down3", "s_RicciS", "Kdown3", "Ktrace", "Kup3", "Adown3",
                 "kappaT", "kappa_rho_n", "kappa_fluxup3_n", "Hamiltonian", "Momentumup3", "eweyl_n_down3", "bweyl_n_down3",
                 "dtKtrace", "dtphi_bssnok", "dtgammaup3", "dtgammadown3_bssnok", "dtAdown3_bssnok", "dts_Gamma_bssnok", "s_Gamma_bssnok",
                 "covd_s", "covd_u", "covd_d", "covd_uu", "covd_dd", "covd_ud", "covd_du", "div_u", "div_d", "div_uu", "div_ud", "div_du",
                 "div_dd", "curl_dd", "stcovd_u", "stcovd_d", "lie_s", "lie_u", "lie_d", "lie_uu", "lie_dd", "lie_ud", "lie_du", "lie_stu",
                 "lie_std", "s_Gamma_udd3_bssnok", "s_Ricci_down3_bssnok", "s_RicciS_bssnok",
                 "dalpha_over_alpha", "nup4", "theta", "minusA", "shear2", "covd_n", "zero9", "zero16", "zero", "zero3"]


def run_oracle(cases, nprimes=10, extra_fields=()):
    """Returns ({case_index(1-based): {field: [Fraction]}}, tlc result dicts, unlucky list)."""
    primes = J.PRIMES[:nprimes]
    defs = {p: {"MonSeq": J.monseq_tla(), "Cases": ST.cases_tla(cases, p)} for p in primes}
    res = GE.run_mod_primes("ThreePlusOne", defs, ["OracleSound", "Emit"], primes=primes)
    for r in res:
        if r["violated"]:
            raise RuntimeError(f"ThreePlusOne oracle violates {r['violated']} modulo {r['p']}:\n{r['tail']}")
    oracle, unlucky = GE.lift_records(res, ORACLE_FIELDS + list(extra_fields))
    return oracle, res, unlucky


def shape_of(field):
    return {"gdown4": (4, 4), "gup4": (4, 4), "gammaup3": (3, 3), "st_Gamma_udd4": (4, 4, 4), "st_Riemann_down4": (4,) * 4,
            "st_Riemann_uddd4": (4,) * 4, "st_Riemann_uudd4": (4,) * 4, "st_Ricci_down4": (4, 4), "Einsteindown4": (4, 4),
            "st_Weyl_down4": (4,) * 4, "s_Gamma_udd3": (3, 3, 3), "s_Riemann_uddd3": (3,) * 4, "s_Riemann_down3": (3,) * 4,
            "s_Ricci_down3": (3, 3), "Kdown3": (3, 3), "Kup3": (3, 3), "Adown3": (3, 3), "kappaT": (4, 4), "kappa_fluxup3_n": (3,),
            "Momentumup3": (3,), "eweyl_n_down3": (3, 3), "bweyl_n_down3": (3, 3), "dtgammaup3": (3, 3), "dtgammadown3_bssnok": (3, 3),
            "dtAdown3_bssnok": (3, 3), "dts_Gamma_bssnok": (3,), "s_Gamma_bssnok": (3,), "dalpha_over_alpha": (3,),
            "covd_s": (3,), "covd_u": (3, 3), "covd_d": (3, 3), "covd_uu": (3, 3, 3), "covd_dd": (3, 3, 3), "covd_ud": (3, 3, 3),
            "covd_du": (3, 3, 3), "div_uu": (3,), "div_ud": (3,), "div_du": (3,), "div_dd": (3,), "curl_dd": (3, 3), "stcovd_u": (4, 4),
            "stcovd_d": (4, 4), "lie_u": (3,), "lie_d": (3,), "lie_uu": (3, 3), "lie_dd": (3, 3), "lie_ud": (3, 3), "lie_du": (3, 3),
            "lie_stu": (4,), "lie_std": (4,), "s_Gamma_udd3_bssnok": (3, 3, 3), "s_Ricci_down3_bssnok": (3, 3),
            "nup4": (4,), "minusA": (3, 3), "covd_n": (4, 4), "zero9": (3, 3), "zero16": (4, 4), "zero3": (3,)}.get(field, ())


def as_array(vals, field):
    if any(v is None for v in vals):
        return None
    a = np.array([float(v) for v in vals])
    return a.reshape(shape_of(field)) if shape_of(field) else a[0]


def build_instance(case, oracle, order, probe="interior", opts=None, with_T=True, boundary="no boundary", refine=1):
    """AurelCore on a grid whose probe point carries the case's jets; returns (rel, probe index)."""
    import aurel.core as core
    N = 2 * order + 1
    h = SPACING[order] / refine
    fd = fields.make_fd(N=N, order=order, h=h, boundary=boundary, aniso=(opts or {}).get("_aniso", (1.0, 1.0, 1.0)))
    idx = {"interior": (order, order, order), "corner": (0, 0, 0), "face": (0, order, order), "edge": (0, N - 1, order)}[probe]
    F = ST.Fields(case, fd, idx)
    # keep everything cached: an entry corrupted or mis-branched by an earlier request must stay visible to later ones
    kw = dict(verbose=False, Lambda=float(case["lam"]), clear_cache_every_nbr_calc=10 ** 6)
    kw.update({k: v for k, v in (opts or {}).items() if not k.startswith("_")})
    rel = core.AurelCore(fd, **kw)
    kappa = (opts or {}).get("_kappa", KAPPA)
    if "_kappa" in (opts or {}):
        rel.kappa = kappa            # the documented attribute: Einstein's constant in the user's units (e.g. 1 for 8 pi G = 1)
    inputs = F.inputs()
    if (opts or {}).get("_components"):
        # the presentation the Einstein Toolkit reader produces: every tensor handed over by its scalar components
        inputs = to_components(inputs, sparse=(opts["_components"] == "sparse"))
    for k, v in inputs.items():
        rel.data[k] = v
    if with_T and oracle is not None and not (opts or {}).get("_noT"):
        kt = as_array(oracle["kappaT"], "kappaT")
        rel.data["Tdown4"] = (kt / kappa)[(...,) + (None,) * 3] * np.ones(fd.x.shape)
    if (opts or {}).get("_moving_fluid"):
        v = np.array([0.25, -0.15, 0.1])[:, None, None, None] * np.ones(fd.x.shape)
        v2 = np.einsum("i...,j...,ij...->...", v, v, rel.data["gammadown3"])
        rel.data["velx"], rel.data["vely"], rel.data["velz"] = v[0], v[1], v[2]
        rel.data["w_lorentz"] = 1.0 / np.sqrt(1.0 - v2)
        rel.data["rho0"] = np.ones(fd.x.shape)
    rel.freeze_data()
    return rel, idx, F


def to_components(inputs, sparse=False):
    """sparse: a shift (or its time derivative) component that vanishes identically is not handed over at all (it is the default)."""
    out = {}
    ax = "xyz"
    for k, v in inputs.items():
        if k == "gammadown3":
            out.update({"g" + ax[i] + ax[j]: v[i, j] for i in range(3) for j in range(i, 3)})
        elif k == "Kdown3":
            out.update({"k" + ax[i] + ax[j]: v[i, j] for i in range(3) for j in range(i, 3)})
        elif k in ("betaup3", "dtbetaup3"):
            out.update({k[:-3] + ax[i]: v[i] for i in range(3) if not (sparse and not np.any(v[i]))})
        else:
            out[k] = v
    return out


def compare_keys(job, refine=1):
    """job: (case, oracle dict, order, probe, keys [(code_key, oracle_field, factor)], opts). Returns list of mismatches.

    A difference above the tolerance is re-examined on a grid with half the spacing: the property is convergence at the
    order of the scheme, so an error that shrinks by at least 2^(order - 1.5) is discretisation error, not a mismatch."""
    case, oracle, order, probe, keys, opts = job
    out = []
    try:
        rel, idx, F = build_instance(case, oracle, order, probe, opts, refine=refine)
    except Exception as ex:
        return [{"key": "*", "error": f"{type(ex).__name__}: {ex}"}]
    # the harness-side K field must agree with the oracle's K at the probe (self-check of the field builder)
    kref = as_array(oracle["Kdown3"], "Kdown3")
    if kref is not None:
        kin = (rel.data["Kdown3"] if "Kdown3" in rel.data else rel["Kdown3"])[(...,) + idx]
        if np.abs(kin - kref).max() > 1e-10 * max(1.0, np.abs(kref).max()):
            return [{"key": "*", "error": "harness K field disagrees with the oracle K at the probe (machinery)"}]
    first = {}                  # what every cached key returned the first time, at the probe
    for p in (opts or {}).get("_pre", []):
        try:
            first[p] = np.array(np.asarray(rel[p])[(...,) + idx], copy=True)
        except Exception:
            return []           # this pre-history is not computable on the probe grid (e.g. sphere extraction): variant skipped
    if (opts or {}).get("_reversed"):
        keys = list(reversed(keys))
    for kspec in keys:
        code_key, field, factor = kspec[:3]
        if factor == KAPPA:
            factor = (opts or {}).get("_kappa", KAPPA)
        slicer = kspec[3] if len(kspec) > 3 else None
        ref = as_array(oracle[field], field)
        if ref is None:
            continue
        try:
            v = CALLS[code_key](rel, F) if code_key in CALLS else rel[code_key]
            if code_key not in CALLS and code_key not in first and isinstance(v, np.ndarray):
                first[code_key] = np.array(v[(...,) + idx], copy=True)
            got = np.asarray(v)[(...,) + idx] * factor
            if slicer == "ss":
                got = got[1:, 1:]
            elif slicer == "s":
                got = got[1:]
        except Exception as ex:
            out.append({"key": code_key, "error": f"{type(ex).__name__}: {str(ex)[:100]}"})
            continue
        if np.shape(got) != np.shape(ref):
            out.append({"key": code_key, "error": f"shape {np.shape(got)} vs {np.shape(ref)}"})
            continue
        scale = max(float(np.abs(ref).max()), 1e-3)
        err = np.abs(got - ref)
        if not np.all(np.isfinite(got)) or err.max() > TOL[order] * max(scale, 1.0):
            i = np.unravel_index(np.argmax(np.where(np.isfinite(err), err, np.inf)), err.shape) if np.ndim(err) else ()
            nbad = int((err > TOL[order] * max(scale, 1.0)).sum()) if np.ndim(err) else 1
            out.append({"key": code_key, "component": [int(x) for x in i], "got": float(np.asarray(got)[i]) if np.ndim(err) else float(got),
                        "exact": str(oracle[field][int(np.ravel_multi_index(i, np.shape(ref)))] if np.ndim(err) else oracle[field][0]),
                        "maxerr": float(err.max()), "scale": scale, "nbad": nbad, "ncomp": int(np.size(ref))})
    # another AurelCore on a grid of the same shape (the next time slice, another resolution study) computes the same large
    # quantities in between: instances share nothing
    if refine == 1 and first and not (opts or {}).get("_pre"):
        try:
            other, _, _ = build_instance(case, oracle, order, probe, opts, refine=2)
            for k in list(first)[:6]:
                if k in rel.data and np.ndim(rel.data[k]) >= 5:
                    other[k]
        except Exception:
            pass
    # final re-read: nothing that was returned (and is still cached) may have been changed by a later request
    if refine == 1:
        for k, v0 in first.items():
            if k in rel.data:
                v1 = np.asarray(rel[k])[(...,) + idx]
                if np.shape(v1) != np.shape(v0) or not np.array_equal(v1, v0, equal_nan=True):
                    out.append({"key": k, "error": "CachedValueChanged: the cached entry no longer is what this request returned the first time (later requests on this instance, or "
                                                   "the same quantity computed by another instance on a grid of the same shape, changed it) "
                                                   f"(max abs change {float(np.nanmax(np.abs(v1 - v0))) if np.shape(v1) == np.shape(v0) else 'shape'})"})
    if out and refine == 1:
        bad_keys = [k for k in keys if k[0] in {m["key"] for m in out if "maxerr" in m}]
        if bad_keys:
            finer = {m["key"]: m for m in compare_keys((case, oracle, order, probe, bad_keys, opts), refine=2)}
            kept = []
            for m in out:
                f = finer.get(m["key"])
                if "maxerr" in m and (f is None or f.get("maxerr", np.inf) <= m["maxerr"] / 2 ** (order - 1.5)):
                    continue            # converges at the order of the scheme
                if f is not None and "maxerr" in f:
                    m["maxerr_half_spacing"] = f["maxerr"]
                kept.append(m)
            out = kept
            # At a boundary probe the one-sided stencils (and derivatives of derivatives across the change of stencil) reach
            # their asymptotic order later: what still stands is examined once more at a quarter of the spacing and accepted
            # when the error keeps shrinking, over the two halvings, at an order not more than 2.5 below the nominal one.
            still = [k for k in keys if k[0] in {m["key"] for m in out if "maxerr_half_spacing" in m}]
            if still and probe != "interior":
                finest = {m["key"]: m for m in compare_keys((case, oracle, order, probe, still, opts), refine=4)}
                kept = []
                for m in out:
                    f = finest.get(m["key"])
                    e4 = None if f is None else f.get("maxerr")
                    if "maxerr_half_spacing" in m and (f is None or (e4 is not None and e4 < m["maxerr_half_spacing"]
                                                                     and e4 <= m["maxerr"] / max(3.0, 2 ** (2 * (order - 2.5))))):
                        continue
                    if e4 is not None:
                        m["maxerr_quarter_spacing"] = e4
                    kept.append(m)
                out = kept
    return out


def shrinks_under_refinement(err_at, order, tol):
    """err_at(refine) -> error of an identity evaluated on the probe grid with spacing h / refine.  True when the error
    is below tol, or is discretisation error (shrinks by 2^(order - 1.5) when the spacing is halved)."""
    e1 = err_at(1)
    if e1 <= tol:
        return True, [e1]
    e2 = err_at(2)
    return e2 <= e1 / 2 ** (order - 1.5), [e1, e2]


def _test_fields(F):
    c = F.case
    if not hasattr(F, "_tf"):
        F._tf = {"phi": F.ev(c["phi"]), "vec": np.array([F.ev(v) for v in c["vec"]]),
                 "ten": np.array([F.ev(v) for v in c["ten"]]).reshape((3, 3) + F.shape),
                 "vec4": np.array([F.ev(v) for v in c["vec4"]]), "dtvec4": np.array([F.ev(v.d(0)) for v in c["vec4"]])}
    return F._tf


def _sum_ricci(rel, F):
    return rel["s_Ricci_down3_bssnok"] + rel["s_Ricci_down3_phi"]


CALLS = {
    "call:s_covd:": lambda r, F: r.s_covd(_test_fields(F)["phi"], ""),
    "call:s_covd:u": lambda r, F: r.s_covd(_test_fields(F)["vec"], "u"),
    "call:s_covd:d": lambda r, F: r.s_covd(_test_fields(F)["vec"], "d"),
    "call:s_covd:uu": lambda r, F: r.s_covd(_test_fields(F)["ten"], "uu"),
    "call:s_covd:dd": lambda r, F: r.s_covd(_test_fields(F)["ten"], "dd"),
    "call:s_covd:ud": lambda r, F: r.s_covd(_test_fields(F)["ten"], "ud"),
    "call:s_covd:du": lambda r, F: r.s_covd(_test_fields(F)["ten"], "du"),
    "call:s_div:u": lambda r, F: r.s_div(_test_fields(F)["vec"], "u"),
    "call:s_div:d": lambda r, F: r.s_div(_test_fields(F)["vec"], "d"),
    "call:s_div:uu": lambda r, F: r.s_div(_test_fields(F)["ten"], "uu"),
    "call:s_div:ud": lambda r, F: r.s_div(_test_fields(F)["ten"], "ud"),
    "call:s_div:du": lambda r, F: r.s_div(_test_fields(F)["ten"], "du"),
    "call:s_div:dd": lambda r, F: r.s_div(_test_fields(F)["ten"], "dd"),
    "call:s_curl:dd": lambda r, F: r.s_curl(_test_fields(F)["ten"], "dd"),
    "call:st_covd:u": lambda r, F: r.st_covd(_test_fields(F)["vec4"], _test_fields(F)["dtvec4"], "u"),
    "call:st_covd:d": lambda r, F: r.st_covd(_test_fields(F)["vec4"], _test_fields(F)["dtvec4"], "d"),
    "call:Lie_beta:": lambda r, F: r.Lie_beta(_test_fields(F)["phi"], "", weight=1 / 6),
    "call:Lie_beta:s_u": lambda r, F: r.Lie_beta(_test_fields(F)["vec"], "s_u", weight=2 / 3),
    "call:Lie_beta:s_d": lambda r, F: r.Lie_beta(_test_fields(F)["vec"], "s_d"),
    "call:Lie_beta:s_uu": lambda r, F: r.Lie_beta(_test_fields(F)["ten"], "s_uu", weight=1),
    "call:Lie_beta:s_dd": lambda r, F: r.Lie_beta(_test_fields(F)["ten"], "s_dd", weight=-2 / 3),
    "call:Lie_beta:s_ud": lambda r, F: r.Lie_beta(_test_fields(F)["ten"], "s_ud", weight=-2 / 3),
    "call:Lie_beta:s_du": lambda r, F: r.Lie_beta(_test_fields(F)["ten"], "s_du"),
    "call:Lie_beta:st_u": lambda r, F: r.Lie_beta(_test_fields(F)["vec4"], "st_u"),
    "call:Lie_beta:st_d": lambda r, F: r.Lie_beta(_test_fields(F)["vec4"], "st_d", weight=1 / 6),
    "sum:s_Ricci_down3_bssnok+phi": _sum_ricci,
}


def pmap(fn, jobs, procs=16):
    if len(jobs) < 4:
        return [fn(j) for j in jobs]
    with mp.get_context("fork").Pool(procs) as pool:
        return pool.map(fn, jobs)
