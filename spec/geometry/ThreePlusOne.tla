---------------------------- MODULE ThreePlusOne ----------------------------
(* A spacetime given in 3+1 form by the jets of lapse, shift and spatial      *)
(* metric in (t, x, y, z) (coordinates 1 = t, 2 = x, 3 = y, 4 = z), and        *)
(* everything the properties C04, C05, C06, C10, C19 compare, computed from    *)
(* the TEXTBOOK DEFINITIONS in exact arithmetic modulo P:                     *)
(*   g_tt = -alpha^2 + beta_k beta^k, g_ti = beta_i, g_ij = gamma_ij          *)
(*   K_ij := -(1/(2 alpha)) (d_t gamma_ij - L_beta gamma_ij)    (definition)  *)
(*   4-D Christoffel symbols, Riemann, Ricci, Einstein, Weyl from g_mu_nu     *)
(*   kappa T_mu_nu := G_mu_nu + Lambda g_mu_nu   (every metric is a solution) *)
(*   E_ij, B_ij  := contractions of the 4-D Weyl tensor with the unit normal  *)
(*   "dt" quantities := d/dt of their definitions (no evolution equation)     *)
(* One pipeline stage per action; the final state is printed as JSON.        *)
EXTENDS Riemannian, TLC, Json

CONSTANTS MonSeq,
          Cases   \* sequence of records of jets (sequences of residues in MonSeq order):
                  \*   alpha, beta (3 jets), gam (6 jets xx xy xz yy yz zz), lam (residue), sd (residue: sqrt of det gamma at the
                  \*   probe), cr (residue: cube root of det gamma at the probe), phi (scalar), vec (3), ten (9), vec4 (4)

VARIABLES cs, stage,
          gam, gamup, gamdet, g4, g4up, g4det, al, be,       \* stage 1: jets
          gam3, gam4, kdd,                                   \* stage 2: jets accurate to first order
          r3, r4, w4,                                        \* stage 3: curvature values
          aux,                                               \* stage 3a: auxiliary jets and tables used several times
          out                                                \* stage 4: everything else (record of values)
vars == <<cs, stage, gam, gamup, gamdet, g4, g4up, g4det, al, be, gam3, gam4, kdd, r3, r4, w4, aux, out>>

Sp  == {2, 3, 4}
All == {1, 2, 3, 4}
JOf(s) == [m \in Mons |-> s[CHOOSE k \in 1 .. Len(MonSeq) : MonSeq[k] = m]]
C == Cases[cs]
SymPos(i, j) == LET a == IF i <= j THEN i ELSE j  b == IF i <= j THEN j ELSE i
                IN  CASE a = 2 /\ b = 2 -> 1 [] a = 2 /\ b = 3 -> 2 [] a = 2 /\ b = 4 -> 3
                      [] a = 3 /\ b = 3 -> 4 [] a = 3 /\ b = 4 -> 5 [] a = 4 /\ b = 4 -> 6
(* sums over index sets take FUNCTIONS (not LAMBDAs: TLC mis-levels a LAMBDA that mentions a state variable) *)
JSum3(f) == JAdd(f[2], JAdd(f[3], f[4]))                 \* f \in [Sp -> jet]
Sum3(f)  == Ad(f[2], Ad(f[3], f[4]))                      \* f \in [Sp -> residue]
Sum4(f)  == Ad(f[1], Ad(f[2], Ad(f[3], f[4])))
V2s(f)   == <<f[<<2, 2>>], f[<<2, 3>>], f[<<2, 4>>], f[<<3, 2>>], f[<<3, 3>>], f[<<3, 4>>], f[<<4, 2>>], f[<<4, 3>>], f[<<4, 4>>]>>
V1s(f)   == <<f[2], f[3], f[4]>>
V2a(f)   == [k \in 1 .. 16 |-> f[<<((k - 1) \div 4) + 1, ((k - 1) % 4) + 1>>]]
Dot33(f)  == SumSeq(V2s(f))                               \* f \in [Sp \X Sp -> residue]
JDot33(f) == JSumSeq(V2s(f))
Dot44(f)  == SumSeq(V2a(f))                               \* f \in [All \X All -> residue]

Init == /\ cs \in 1 .. Len(Cases) /\ stage = 0
        /\ al = JOf(Cases[cs].alpha)
        /\ be = [i \in Sp |-> JOf(Cases[cs].beta[i - 1])]
        /\ gam = [ij \in Sp \X Sp |-> JOf(Cases[cs].gam[SymPos(ij[1], ij[2])])]
        /\ gamup = << >> /\ gamdet = << >> /\ g4 = << >> /\ g4up = << >> /\ g4det = << >>
        /\ gam3 = << >> /\ gam4 = << >> /\ kdd = << >> /\ r3 = << >> /\ r4 = << >> /\ w4 = << >> /\ aux = << >> /\ out = << >>

(* ---- stage 1: the 4-metric and the inverses ---- *)
BetaD(i) == JSum3([j \in Sp |-> JMul(gam[<<i, j>>], be[j])])
G4 == [ab \in All \X All |->
          IF ab[1] = 1 /\ ab[2] = 1 THEN JAdd(JNeg(JMul(al, al)), JSum3([k \in Sp |-> JMul(BetaD(k), be[k])]))
          ELSE IF ab[1] = 1 THEN BetaD(ab[2])
          ELSE IF ab[2] = 1 THEN BetaD(ab[1])
          ELSE gam[ab]]
S1 == /\ stage = 0 /\ stage' = 1
      /\ gamdet' = Det(gam, Sp)
      /\ gamup' = InverseWith(gam, Sp, JInv(gamdet'))
      /\ g4' = G4
      /\ g4det' = Det(g4', All)
      /\ g4up' = InverseWith(g4', All, JInv(g4det'))
      /\ UNCHANGED <<cs, al, be, gam, gam3, gam4, kdd, r3, r4, w4, aux, out>>

(* ---- stage 2: connections and the extrinsic curvature from its definition ---- *)
LieBetaGamma(i, j) ==
    JAdd(JSum3([k \in Sp |-> JMul(be[k], JD(k, gam[<<i, j>>]))]),
         JAdd(JSum3([k \in Sp |-> JMul(gam[<<k, j>>], JD(i, be[k]))]),
              JSum3([k \in Sp |-> JMul(gam[<<i, k>>], JD(j, be[k]))])))
S2 == /\ stage = 1 /\ stage' = 2
      /\ gam3' = GammaUp(gamup, GammaDown(gam, Sp), Sp)
      /\ gam4' = GammaUp(g4up, GammaDown(g4, All), All)
      /\ kdd' = LET i2a == JInv(JScale(2, al))
                IN  [ij \in Sp \X Sp |-> JNeg(JMul(i2a, JSub(JD(1, gam[ij]), LieBetaGamma(ij[1], ij[2]))))]
      /\ UNCHANGED <<cs, al, be, gam, gamup, gamdet, g4, g4up, g4det, r3, r4, w4, aux, out>>

(* ---- stage 3: curvature ---- *)
S3 == /\ stage = 2 /\ stage' = 3
      /\ LET u3 == RiemannUddd(gam3, Sp)
             u4 == RiemannUddd(gam4, All)
             d3 == RiemannDown(u3, gam, Sp)
             d4 == RiemannDown(u4, g4, All)
             c3 == Ricci(u3, Sp)
             c4 == Ricci(u4, All)
             s3 == Trace(c3, gamup, Sp)
             s4 == Trace(c4, g4up, All)
         IN  /\ r3' = [uddd |-> u3, down |-> d3, ric |-> c3, rs |-> s3]
             /\ r4' = [uddd |-> u4, down |-> d4, uudd |-> RiemannUudd(u4, g4up, All), ric |-> c4, rs |-> s4,
                       ein |-> Einstein(c4, s4, g4, All)]
             /\ w4' = Weyl(d4, c4, s4, g4, All)
      /\ UNCHANGED <<cs, al, be, gam, gamup, gamdet, g4, g4up, g4det, gam3, gam4, kdd, aux, out>>

(* ---- stage 4: 3+1 quantities (values at the probe) ---- *)
A0     == JVal(al)
IA0    == Inv(A0)
Nup(m) == IF m = 1 THEN IA0 ELSE Ng(Mu(JVal(be[m]), IA0))          \* n^mu = (1, -beta^i) / alpha
GU(i, j) == JVal(gamup[<<i, j>>])
GD(i, j) == JVal(gam[<<i, j>>])
KD(i, j) == JVal(kdd[<<i, j>>])
KTr    == Dot33([ijq \in Sp \X Sp |-> Mu(GU(ijq[1], ijq[2]), KD(ijq[1], ijq[2]))])
KUU(i, j) == Dot33([abq \in Sp \X Sp |-> Mu(Mu(GU(i, abq[1]), GU(j, abq[2])), KD(abq[1], abq[2]))])
KK     == Dot33([ijq \in Sp \X Sp |-> Mu(KD(ijq[1], ijq[2]), KUU(ijq[1], ijq[2]))])
AD(i, j) == Sb(KD(i, j), Mu(Inv(3), Mu(GD(i, j), KTr)))
Lam    == C.lam
KT(a, b) == Ad(r4.ein[<<a, b>>], Mu(Lam, JVal(g4[<<a, b>>])))             \* kappa T_ab := G_ab + Lambda g_ab
KRho   == Dot44([abq \in All \X All |-> Mu(KT(abq[1], abq[2]), Mu(Nup(abq[1]), Nup(abq[2])))])   \* kappa rho_n
KTn(j)    == Sum4([c \in All |-> Mu(KT(j, c), Nup(c))])
KFluxU(i) == Ng(Sum3([j \in Sp |-> Mu(GU(i, j), KTn(j))]))   \* kappa S^i = - gamma^ij T_jc n^c
(* spatial covariant derivative of the jets of a contravariant rank-2 tensor: D_c X^ab (value) *)
G3(a, b, c) == JVal(gam3[<<a, b, c>>])
KUUJraw(i, j) == JSumSeq(<<JMul(JMul(gamup[<<i, 2>>], gamup[<<j, 2>>]), kdd[<<2, 2>>]), JMul(JMul(gamup[<<i, 2>>], gamup[<<j, 3>>]), kdd[<<2, 3>>]),
                        JMul(JMul(gamup[<<i, 2>>], gamup[<<j, 4>>]), kdd[<<2, 4>>]), JMul(JMul(gamup[<<i, 3>>], gamup[<<j, 2>>]), kdd[<<3, 2>>]),
                        JMul(JMul(gamup[<<i, 3>>], gamup[<<j, 3>>]), kdd[<<3, 3>>]), JMul(JMul(gamup[<<i, 3>>], gamup[<<j, 4>>]), kdd[<<3, 4>>]),
                        JMul(JMul(gamup[<<i, 4>>], gamup[<<j, 2>>]), kdd[<<4, 2>>]), JMul(JMul(gamup[<<i, 4>>], gamup[<<j, 3>>]), kdd[<<4, 3>>]),
                        JMul(JMul(gamup[<<i, 4>>], gamup[<<j, 4>>]), kdd[<<4, 4>>])>>)
KTrJraw == JDot33([ijq \in Sp \X Sp |-> JMul(gamup[<<ijq[1], ijq[2]>>], kdd[<<ijq[1], ijq[2]>>])])
XJ(i, j) == aux.xj[<<i, j>>]                  \* X^ij = K^ij - gamma^ij K   (jet)
DivX(i) == Ad(Sum3([j \in Sp |-> JVal(JD(j, XJ(i, j)))]),
              Ad(Dot33([jdq \in Sp \X Sp |-> Mu(G3(i, jdq[1], jdq[2]), JVal(XJ(jdq[2], jdq[1])))]),
                 Dot33([jdq \in Sp \X Sp |-> Mu(G3(jdq[1], jdq[1], jdq[2]), JVal(XJ(i, jdq[2])))])))       \* D_j X^ij = d_j X^ij + G^i_jd X^dj + G^j_jd X^id
Ham    == Sb(Sb(Ad(r3.rs, Sb(Mu(KTr, KTr), KK)), Mu(2, KRho)), Mu(2, Lam))
Mom(i) == Sb(DivX(i), KFluxU(i))
(* electric and magnetic parts of the Weyl tensor in the normal frame *)
EW(i, j) == Dot44([bdq \in All \X All |-> Mu(w4[<<i, bdq[1], j, bdq[2]>>], Mu(Nup(bdq[1]), Nup(bdq[2])))])
SqrtMG == Mu(A0, C.sd)                                                       \* sqrt(-g) = alpha sqrt(gamma)
Perm4(a, b, c, d) == IF Cardinality({a, b, c, d}) < 4 THEN 0
                     ELSE LET inv == Cardinality({p \in {<<a, b>>, <<a, c>>, <<a, d>>, <<b, c>>, <<b, d>>, <<c, d>>} : p[1] > p[2]})
                          IN  IF inv % 2 = 0 THEN 1 ELSE P - 1
Eps(a, b, c, d) == Mu(SqrtMG, Perm4(a, b, c, d))
G4U(a, b) == JVal(g4up[<<a, b>>])
EpsUUddraw(c, d, e, f) == Dot44([abq \in All \X All |-> Mu(Mu(G4U(abq[1], c), G4U(abq[2], d)), Eps(abq[1], abq[2], e, f))])
BWin(a, e, b, f) == Dot44([cdq \in All \X All |-> Mu(w4[<<a, b, cdq[1], cdq[2]>>], aux.epsuu[<<cdq[1], cdq[2], e, f>>])])
BW(a, e) == Mu(Half, Dot44([bfq \in All \X All |-> Mu(Mu(Nup(bfq[1]), Nup(bfq[2])), BWin(a, e, bfq[1], bfq[2]))]))

(* true time derivatives (stage D): d/dt of the definitions *)
DtKTr     == JVal(JD(1, aux.ktrj))
DtPhi     == Mu(Inv(12), Mu(JVal(JD(1, gamdet)), Inv(JVal(gamdet))))          \* phi = ln(det gamma) / 12
DtGamUp(i, j) == JVal(JD(1, gamup[<<i, j>>]))
PsiM4Jraw == JPowM13(gamdet, C.cr)                                            \* psi^-4 = det^(-1/3)   (jet)
PsiM4J    == aux.psim4
Psi4J     == aux.psi4
KTrJ      == aux.ktrj
GamTilJ(i, j)   == JMul(PsiM4J, gam[<<i, j>>])
GamTilUpJ(i, j) == JMul(Psi4J, gamup[<<i, j>>])
ATilJ(i, j)     == JMul(PsiM4J, JSub(kdd[<<i, j>>], JScale(Inv(3), JMul(gam[<<i, j>>], KTrJ))))
DtGamTil(i, j)  == JVal(JD(1, GamTilJ(i, j)))
DtATil(i, j)    == JVal(JD(1, ATilJ(i, j)))
GamConf(i)      == JNeg(JSum3([j \in Sp |-> JD(j, GamTilUpJ(i, j))]))              \* conformal connection functions -d_j gammatilde^ij (jet, 1st order)
DtGamConf(i)    == JVal(JD(1, GamConf(i)))

(* ---- test tensors (C05): covariant derivatives, divergences, curl, Lie derivatives along the shift ---- *)
PHI      == aux.ph
VE(i)    == aux.ve[i]
TE(i, j) == aux.te[<<i, j>>]
W4v(a)   == aux.w4[a]
G4G(a, b, c) == JVal(gam4[<<a, b, c>>])
CovS(c)        == JVal(JD(c, PHI))
CovU(c, a)     == Ad(JVal(JD(c, VE(a))), Sum3([d \in Sp |-> Mu(G3(a, c, d), JVal(VE(d)))]))
CovD(c, a)     == Sb(JVal(JD(c, VE(a))), Sum3([d \in Sp |-> Mu(G3(d, c, a), JVal(VE(d)))]))
CovUU(c, a, b) == Ad(JVal(JD(c, TE(a, b))), Ad(Sum3([d \in Sp |-> Mu(G3(a, c, d), JVal(TE(d, b)))]), Sum3([d \in Sp |-> Mu(G3(b, c, d), JVal(TE(a, d)))])))
CovDD(c, a, b) == Sb(JVal(JD(c, TE(a, b))), Ad(Sum3([d \in Sp |-> Mu(G3(d, c, a), JVal(TE(d, b)))]), Sum3([d \in Sp |-> Mu(G3(d, c, b), JVal(TE(a, d)))])))
CovUD(c, a, b) == Ad(JVal(JD(c, TE(a, b))), Sb(Sum3([d \in Sp |-> Mu(G3(a, c, d), JVal(TE(d, b)))]), Sum3([d \in Sp |-> Mu(G3(d, c, b), JVal(TE(a, d)))])))
CovDU(c, a, b) == Ad(JVal(JD(c, TE(a, b))), Sb(Sum3([d \in Sp |-> Mu(G3(b, c, d), JVal(TE(a, d)))]), Sum3([d \in Sp |-> Mu(G3(d, c, a), JVal(TE(d, b)))])))
(* spacetime covariant derivative of a 4-vector, derivative index first *)
StCovU(m, n) == Ad(JVal(JD(m, W4v(n))), Sum4([l \in All |-> Mu(G4G(n, m, l), JVal(W4v(l)))]))
StCovD(m, n) == Sb(JVal(JD(m, W4v(n))), Sum4([l \in All |-> Mu(G4G(l, m, n), JVal(W4v(l)))]))
(* curl of a covariant rank-2 tensor: sym_ab( eps^cd_a D_c f_bd ), eps_ijk = sqrt(gamma) [ijk] *)
Perm3(a, b, c) == IF Cardinality({a, b, c}) < 3 THEN 0
                  ELSE IF <<a, b, c>> \in {<<2, 3, 4>>, <<3, 4, 2>>, <<4, 2, 3>>} THEN 1 ELSE P - 1
Eps3UUd(c, d, a) == Dot33([efq \in Sp \X Sp |-> Mu(Mu(GU(c, efq[1]), GU(d, efq[2])), Mu(C.sd, Perm3(efq[1], efq[2], a)))])
CurlX(a, b) == Dot33([cdq \in Sp \X Sp |-> Mu(Eps3UUd(cdq[1], cdq[2], a), CovDD(cdq[1], b, cdq[2]))])
Curl(a, b)  == Mu(Half, Ad(CurlX(a, b), CurlX(b, a)))
(* Lie derivatives along the shift, with density weight w: standard terms + w (d_k beta^k) T *)
DivBeta   == Sum3([k \in Sp |-> JVal(JD(k, be[k]))])
DB(k, a)  == JVal(JD(k, be[a]))                                            \* d_k beta^a
Adv(f)    == Sum3([k \in Sp |-> Mu(JVal(be[k]), JVal(JD(k, f)))])          \* beta^k d_k f
LieS(w)       == Ad(Adv(PHI), Mu(w, Mu(DivBeta, JVal(PHI))))
LieU(a, w)    == Ad(Sb(Adv(VE(a)), Sum3([k \in Sp |-> Mu(JVal(VE(k)), DB(k, a))])), Mu(w, Mu(DivBeta, JVal(VE(a)))))
LieD(a, w)    == Ad(Ad(Adv(VE(a)), Sum3([k \in Sp |-> Mu(JVal(VE(k)), DB(a, k))])), Mu(w, Mu(DivBeta, JVal(VE(a)))))
LieUU(a, b, w) == Ad(Sb(Sb(Adv(TE(a, b)), Sum3([k \in Sp |-> Mu(JVal(TE(k, b)), DB(k, a))])), Sum3([k \in Sp |-> Mu(JVal(TE(a, k)), DB(k, b))])),
                     Mu(w, Mu(DivBeta, JVal(TE(a, b)))))
LieDD(a, b, w) == Ad(Ad(Ad(Adv(TE(a, b)), Sum3([k \in Sp |-> Mu(JVal(TE(k, b)), DB(a, k))])), Sum3([k \in Sp |-> Mu(JVal(TE(a, k)), DB(b, k))])),
                     Mu(w, Mu(DivBeta, JVal(TE(a, b)))))
LieUD(a, b, w) == Ad(Ad(Sb(Adv(TE(a, b)), Sum3([k \in Sp |-> Mu(JVal(TE(k, b)), DB(k, a))])), Sum3([k \in Sp |-> Mu(JVal(TE(a, k)), DB(b, k))])),
                     Mu(w, Mu(DivBeta, JVal(TE(a, b)))))
LieDU(a, b, w) == Ad(Sb(Ad(Adv(TE(a, b)), Sum3([k \in Sp |-> Mu(JVal(TE(k, b)), DB(a, k))])), Sum3([k \in Sp |-> Mu(JVal(TE(a, k)), DB(k, b))])),
                     Mu(w, Mu(DivBeta, JVal(TE(a, b)))))
LieStU(a, w) == Ad(IF a = 1 THEN Adv(W4v(1))
                   ELSE Sb(Sb(Adv(W4v(a)), Mu(JVal(W4v(1)), JVal(JD(1, be[a])))), Sum3([k \in Sp |-> Mu(JVal(W4v(k)), DB(k, a))])),
                   Mu(w, Mu(DivBeta, JVal(W4v(a)))))
LieStD(a, w) == Ad(IF a = 1 THEN Ad(Adv(W4v(1)), Sum3([k \in Sp |-> Mu(JVal(W4v(k)), JVal(JD(1, be[k])))]))
                   ELSE Ad(Adv(W4v(a)), Sum3([k \in Sp |-> Mu(JVal(W4v(k)), DB(a, k))])),
                   Mu(w, Mu(DivBeta, JVal(W4v(a)))))
V3s3(f) == [k \in 1 .. 27 |-> f[<<((k - 1) \div 9) + 2, (((k - 1) \div 3) % 3) + 2, ((k - 1) % 3) + 2>>]]
W16 == Inv(6)
Wm23 == Ng(Dv(2, 3))
W23 == Dv(2, 3)
V3a(f) == [k \in 1 .. 64 |-> f[<<((k - 1) \div 16) + 1, (((k - 1) \div 4) % 4) + 1, ((k - 1) % 4) + 1>>]]
V4a(f) == [k \in 1 .. 256 |-> f[<<((k - 1) \div 64) + 1, (((k - 1) \div 16) % 4) + 1, (((k - 1) \div 4) % 4) + 1, ((k - 1) % 4) + 1>>]]
V3s(f) == [k \in 1 .. 27 |-> f[<<((k - 1) \div 9) + 2, (((k - 1) \div 3) % 3) + 2, ((k - 1) % 3) + 2>>]]
V4s(f) == [k \in 1 .. 81 |-> f[<<((k - 1) \div 27) + 2, (((k - 1) \div 9) % 3) + 2, (((k - 1) \div 3) % 3) + 2, ((k - 1) % 3) + 2>>]]

(* ---- stage 3a: jets and tables that stage 4 uses many times ---- *)
S3a == /\ stage = 3 /\ stage' = 35
       /\ LET kt == KTrJraw
              pm == PsiM4Jraw
          IN  aux' = [ktrj |-> kt,
                      xj |-> [ij \in Sp \X Sp |-> JSub(KUUJraw(ij[1], ij[2]), JMul(gamup[ij], kt))],
                      psim4 |-> pm, psi4 |-> JInv(pm),
                      epsuu |-> [cdef \in All \X All \X All \X All |-> EpsUUddraw(cdef[1], cdef[2], cdef[3], cdef[4])],
                      ph |-> JOf(C.phi), ve |-> [i \in Sp |-> JOf(C.vec[i - 1])],
                      te |-> [ij \in Sp \X Sp |-> JOf(C.ten[(ij[1] - 2) * 3 + (ij[2] - 2) + 1])],
                      w4 |-> [a \in All |-> JOf(C.vec4[a])],
                      gamtil3 |-> LET gt  == [ij \in Sp \X Sp |-> JMul(pm, gam[ij])]
                                      gtu == [ij \in Sp \X Sp |-> JMul(JInv(pm), gamup[ij])]
                                  IN  GammaUp(gtu, GammaDown(gt, Sp), Sp)]
       /\ UNCHANGED <<cs, al, be, gam, gamup, gamdet, g4, g4up, g4det, gam3, gam4, kdd, r3, r4, w4, out>>

S4 == /\ stage = 35 /\ stage' = 4
      /\ out' = [
            gdown4 |-> V2a([abq \in All \X All |-> JVal(g4[<<abq[1], abq[2]>>])]), gup4 |-> V2a([abq \in All \X All |-> G4U(abq[1], abq[2])]), gdet |-> JVal(g4det),
            gammaup3 |-> V2s([ijq \in Sp \X Sp |-> GU(ijq[1], ijq[2])]), gammadet |-> JVal(gamdet),
            st_Gamma_udd4 |-> V3a([abc \in All \X All \X All |-> JVal(gam4[abc])]),
            st_Riemann_down4 |-> V4a(r4.down), st_Riemann_uddd4 |-> V4a(r4.uddd), st_Riemann_uudd4 |-> V4a(r4.uudd),
            st_Ricci_down4 |-> V2a([abq \in All \X All |-> r4.ric[<<abq[1], abq[2]>>]]), st_RicciS |-> r4.rs,
            Einsteindown4 |-> V2a([abq \in All \X All |-> r4.ein[<<abq[1], abq[2]>>]]), Kretschmann |-> Kretschmann(r4.uudd, All),
            st_Weyl_down4 |-> V4a(w4),
            s_Gamma_udd3 |-> V3s([abc \in Sp \X Sp \X Sp |-> G3(abc[1], abc[2], abc[3])]), s_Riemann_uddd3 |-> V4s(r3.uddd), s_Riemann_down3 |-> V4s(r3.down),
            s_Ricci_down3 |-> V2s([ijq \in Sp \X Sp |-> r3.ric[<<ijq[1], ijq[2]>>]]), s_RicciS |-> r3.rs,
            Kdown3 |-> V2s([ijq \in Sp \X Sp |-> KD(ijq[1], ijq[2])]), Ktrace |-> KTr, Kup3 |-> V2s([ijq \in Sp \X Sp |-> KUU(ijq[1], ijq[2])]), Adown3 |-> V2s([ijq \in Sp \X Sp |-> AD(ijq[1], ijq[2])]),
            kappaT |-> V2a([abq \in All \X All |-> KT(abq[1], abq[2])]), kappa_rho_n |-> KRho, kappa_fluxup3_n |-> V1s([iq \in Sp |-> KFluxU(iq)]),
            Hamiltonian |-> Ham, Momentumup3 |-> V1s([iq \in Sp |-> Mom(iq)]),
            eweyl_n_down3 |-> V2s([ijq \in Sp \X Sp |-> EW(ijq[1], ijq[2])]), bweyl_n_down3 |-> V2s([ijq \in Sp \X Sp |-> BW(ijq[1], ijq[2])]),
            dtKtrace |-> DtKTr, dtphi_bssnok |-> DtPhi, dtgammaup3 |-> V2s([ijq \in Sp \X Sp |-> DtGamUp(ijq[1], ijq[2])]),
            dtgammadown3_bssnok |-> V2s([ijq \in Sp \X Sp |-> DtGamTil(ijq[1], ijq[2])]), dtAdown3_bssnok |-> V2s([ijq \in Sp \X Sp |-> DtATil(ijq[1], ijq[2])]), dts_Gamma_bssnok |-> V1s([iq \in Sp |-> DtGamConf(iq)]),
            s_Gamma_bssnok |-> V1s([i \in Sp |-> JVal(GamConf(i))]),
            dalpha_over_alpha |-> V1s([i \in Sp |-> Mu(JVal(JD(i, al)), IA0)]),
            (* Eulerian observers (u = n): theta = -K, sigma_ij = -A_ij, a_i = d_i ln(alpha), omega = 0, nabla_a n_b = -d_a alpha delta^t_b + alpha Gamma^t_ab *)
            nup4 |-> <<Nup(1), Nup(2), Nup(3), Nup(4)>>,
            theta |-> Ng(KTr), minusA |-> V2s([ijq \in Sp \X Sp |-> Ng(AD(ijq[1], ijq[2]))]),
            shear2 |-> Mu(Half, Dot33([ijq \in Sp \X Sp |-> Mu(AD(ijq[1], ijq[2]),
                                  Dot33([abq \in Sp \X Sp |-> Mu(Mu(GU(ijq[1], abq[1]), GU(ijq[2], abq[2])), AD(abq[1], abq[2]))]))])),
            covd_n |-> V2a([abq \in All \X All |-> Sb(Mu(A0, JVal(gam4[<<1, abq[1], abq[2]>>])),
                                                        IF abq[2] = 1 THEN JVal(JD(abq[1], al)) ELSE 0)]),
            covd_s |-> V1s([c \in Sp |-> CovS(c)]),
            covd_u |-> V2s([caq \in Sp \X Sp |-> CovU(caq[1], caq[2])]), covd_d |-> V2s([caq \in Sp \X Sp |-> CovD(caq[1], caq[2])]),
            covd_uu |-> V3s3([cab \in Sp \X Sp \X Sp |-> CovUU(cab[1], cab[2], cab[3])]),
            covd_dd |-> V3s3([cab \in Sp \X Sp \X Sp |-> CovDD(cab[1], cab[2], cab[3])]),
            covd_ud |-> V3s3([cab \in Sp \X Sp \X Sp |-> CovUD(cab[1], cab[2], cab[3])]),
            covd_du |-> V3s3([cab \in Sp \X Sp \X Sp |-> CovDU(cab[1], cab[2], cab[3])]),
            div_u |-> Sum3([a \in Sp |-> CovU(a, a)]), div_d |-> Dot33([abq \in Sp \X Sp |-> Mu(GU(abq[1], abq[2]), CovD(abq[1], abq[2]))]),
            div_uu |-> V1s([b \in Sp |-> Sum3([a \in Sp |-> CovUU(a, a, b)])]), div_ud |-> V1s([b \in Sp |-> Sum3([a \in Sp |-> CovUD(a, a, b)])]),
            div_du |-> V1s([b \in Sp |-> Sum3([a \in Sp |-> CovDU(a, b, a)])]),
            div_dd |-> V1s([c \in Sp |-> Dot33([abq \in Sp \X Sp |-> Mu(GU(abq[1], abq[2]), CovDD(abq[1], abq[2], c))])]),
            curl_dd |-> V2s([abq \in Sp \X Sp |-> Curl(abq[1], abq[2])]),
            stcovd_u |-> V2a([mnq \in All \X All |-> StCovU(mnq[1], mnq[2])]), stcovd_d |-> V2a([mnq \in All \X All |-> StCovD(mnq[1], mnq[2])]),
            lie_s |-> LieS(W16), lie_u |-> V1s([a \in Sp |-> LieU(a, W23)]), lie_d |-> V1s([a \in Sp |-> LieD(a, 0)]),
            lie_uu |-> V2s([abq \in Sp \X Sp |-> LieUU(abq[1], abq[2], 1)]), lie_dd |-> V2s([abq \in Sp \X Sp |-> LieDD(abq[1], abq[2], Wm23)]),
            lie_ud |-> V2s([abq \in Sp \X Sp |-> LieUD(abq[1], abq[2], Wm23)]), lie_du |-> V2s([abq \in Sp \X Sp |-> LieDU(abq[1], abq[2], 0)]),
            lie_stu |-> <<LieStU(1, 0), LieStU(2, 0), LieStU(3, 0), LieStU(4, 0)>>,
            lie_std |-> <<LieStD(1, W16), LieStD(2, W16), LieStD(3, W16), LieStD(4, W16)>>,
            s_Gamma_udd3_bssnok |-> V3s([abc \in Sp \X Sp \X Sp |-> JVal(aux.gamtil3[abc])]),
            s_Ricci_down3_bssnok |-> LET rt == Ricci(RiemannUddd(aux.gamtil3, Sp), Sp) IN V2s([ijq \in Sp \X Sp |-> rt[<<ijq[1], ijq[2]>>]]),
            \* the conformal Ricci scalar is the trace with the CONFORMAL inverse metric gammatilde^ij = psi^4 gamma^ij
            s_RicciS_bssnok |-> LET rt == Ricci(RiemannUddd(aux.gamtil3, Sp), Sp) IN
                                Dot33([ijq \in Sp \X Sp |-> Mu(JVal(GamTilUpJ(ijq[1], ijq[2])), rt[<<ijq[1], ijq[2]>>])]),
            zero9 |-> <<0, 0, 0, 0, 0, 0, 0, 0, 0>>, zero16 |-> V2a([abq \in All \X All |-> 0]), zero |-> 0, zero3 |-> <<0, 0, 0>>
         ]
      /\ UNCHANGED <<cs, al, be, gam, gamup, gamdet, g4, g4up, g4det, gam3, gam4, kdd, r3, r4, w4, aux>>

Next == S1 \/ S2 \/ S3 \/ S3a \/ S4
Spec == Init /\ [][Next]_vars

-----------------------------------------------------------------------------
Lucky == JVal(Det(gam, Sp)) # 0 /\ JVal(al) # 0 /\ (stage >= 1 => JVal(g4det) # 0)
(* the oracle is validated against identities it was not written from *)
(* OracleSoundCore: everything that does not need sqrt(det gamma) or det gamma^(1/3) to be supplied as rationals;  *)
(* used alone for spacetimes whose determinant is not a perfect sixth power (solution modules, C17)               *)
OracleSoundCore ==
    (stage = 4 /\ Lucky) =>
        /\ RiemannSymmetries(r4.down, All) /\ RiemannSymmetries(r3.down, Sp)
        /\ InverseIsInverse(g4, g4up, All) /\ MetricCompatible(g4, gam4, All) /\ MetricCompatible(gam, gam3, Sp)
        /\ WeylTraceFree(w4, g4up, All) /\ RiemannSymmetries(w4, All)
        /\ JVal(g4det) = Ng(Mu(Mu(A0, A0), JVal(gamdet)))                      \* det g = - alpha^2 det gamma
        /\ out.Hamiltonian = 0 /\ out.Momentumup3 = <<0, 0, 0>>                \* the constraints vanish identically for T := (G + Lambda g)/kappa
        /\ \A i, j \in Sp : EW(i, j) = EW(j, i) /\ BW(i, j) = BW(j, i)         \* E, B symmetric
        /\ Dot33([ijq \in Sp \X Sp |-> Mu(GU(ijq[1], ijq[2]), EW(ijq[1], ijq[2]))]) = 0        \* and trace-free
        /\ Dot33([ijq \in Sp \X Sp |-> Mu(GU(ijq[1], ijq[2]), BW(ijq[1], ijq[2]))]) = 0
RootsGiven == (stage = 4 /\ Lucky) => (Mu(C.sd, C.sd) = JVal(gamdet) /\ Mu(C.cr, Mu(C.cr, C.cr)) = JVal(gamdet))
OracleSound == OracleSoundCore /\ RootsGiven
Emit == (stage = 4) => PrintT(ToJson([case |-> cs, P |-> P, lucky |-> Lucky] @@ out))
=============================================================================
