"""Non-degenerate input data: every field is smooth, position dependent and different from every other."""
import numpy as np


def make_fd(N=8, order=4, boundary="no boundary", h=0.05, shape=None, origin=(-0.17, 0.11, 0.23), aniso=(1.0, 1.0, 1.0)):
    """aniso: the spacing of each axis is h times its factor (dx != dy != dz grids)."""
    import aurel.finitedifference as fdm
    shape = shape or (N, N, N)
    param = {"Nx": shape[0], "Ny": shape[1], "Nz": shape[2],
             "xmin": origin[0], "ymin": origin[1], "zmin": origin[2], "dx": h * aniso[0], "dy": h * aniso[1], "dz": h * aniso[2]}
    return fdm.FiniteDifference(param, boundary=boundary, fd_order=order, verbose=False)


def _smooth(fd, rng, amp=1.0):
    """A smooth scalar field: random quadratic polynomial plus one sine mode."""
    x, y, z = fd.x, fd.y, fd.z
    c = rng.uniform(-1, 1, size=10)
    k = rng.uniform(0.5, 2.0, size=3)
    return amp * (c[0] + c[1] * x + c[2] * y + c[3] * z + c[4] * x * y + c[5] * y * z + c[6] * x * z
                  + c[7] * x * x + c[8] * y * y + c[9] * z * z + 0.3 * np.sin(k[0] * x + k[1] * y + k[2] * z))


def generic_inputs(fd, seed=0, presentation="tensors"):
    """Off-shell but fully generic data: non-diagonal metric, non-zero shift, varying lapse, K != 0."""
    rng = np.random.default_rng(1000 + seed)
    shape = fd.x.shape
    S = np.array([[_smooth(fd, rng, 0.08) for _ in range(3)] for _ in range(3)])
    S = 0.5 * (S + np.swapaxes(S, 0, 1))
    gam = S.copy()
    for i, d in enumerate((1.0, 1.3, 0.8)):
        gam[i, i] += d
    K = np.array([[_smooth(fd, rng, 0.3) for _ in range(3)] for _ in range(3)])
    K = 0.5 * (K + np.swapaxes(K, 0, 1))
    alpha = 1.4 + _smooth(fd, rng, 0.1)
    beta = np.array([_smooth(fd, rng, 0.15) for _ in range(3)])
    dtalpha = _smooth(fd, rng, 0.2)
    dtbeta = np.array([_smooth(fd, rng, 0.2) for _ in range(3)])
    T = np.array([[_smooth(fd, rng, 0.05) for _ in range(4)] for _ in range(4)])
    T = 0.5 * (T + np.swapaxes(T, 0, 1))
    T[0, 0] += 0.4
    rho0 = 0.5 + _smooth(fd, rng, 0.05) ** 2
    eps = 0.2 + _smooth(fd, rng, 0.05) ** 2
    press = 0.1 + _smooth(fd, rng, 0.03) ** 2
    vel = np.array([_smooth(fd, rng, 0.1) for _ in range(3)])
    v2 = np.einsum("i...,j...,ij...->...", vel, vel, gam)
    W = 1.0 / np.sqrt(1.0 - v2)
    if presentation == "tensors":
        return {"gammadown3": gam, "Kdown3": K, "alpha": alpha, "betaup3": beta, "dtalpha": dtalpha,
                "dtbetaup3": dtbeta, "Tdown4": T}
    if presentation == "components":
        d = {"alpha": alpha, "dtalpha": dtalpha, "rho0": rho0, "eps": eps, "press": press, "w_lorentz": W,
             "velx": vel[0], "vely": vel[1], "velz": vel[2]}
        for n, (i, j) in {"xx": (0, 0), "xy": (0, 1), "xz": (0, 2), "yy": (1, 1), "yz": (1, 2), "zz": (2, 2)}.items():
            d["g" + n] = gam[i, j].copy()
            d["k" + n] = K[i, j].copy()
        for i, n in enumerate("xyz"):
            d["beta" + n] = beta[i].copy()
            d["dtbeta" + n] = dtbeta[i].copy()
        return d
    if presentation == "dust":
        r = rho0.copy()
        r[: max(1, shape[0] // 3)] = 0.0          # a vacuum region
        return {"gammadown3": gam, "Kdown3": K, "alpha": alpha, "rho0": r, "press": press}
    if presentation == "partial":
        return {"gammadown3": gam, "Kdown3": K, "alpha": alpha, "betay": beta[1].copy(), "betaz": beta[2].copy(), "Tdown4": T}
    if presentation == "nomatter":
        # geometry only: no matter variable is supplied (an empty universe with, possibly, a cosmological constant)
        return {"gammadown3": gam, "Kdown3": K, "alpha": alpha, "betaup3": beta}
    if presentation == "minimal":
        return {"gammadown3": gam, "Kdown3": K, "alpha": alpha, "rho": rho0 * (1 + eps)}
    raise ValueError(presentation)
