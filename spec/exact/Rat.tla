------------------------------- MODULE Rat -------------------------------
(* Exact rational arithmetic for TLC.  A rational is a pair <<num, den>>   *)
(* with den > 0 and gcd(|num|, den) = 1.  All operators normalise, so      *)
(* equality of rationals is equality of pairs.  TLC integers are 32 bit:   *)
(* users keep numerators and denominators small (documented per module).   *)
EXTENDS Integers, Sequences

Abs(x) == IF x < 0 THEN 0 - x ELSE x

RECURSIVE Gcd(_, _)
Gcd(a, b) == IF b = 0 THEN a ELSE Gcd(b, a % b)

RNorm(n, d) ==
    LET s == IF d < 0 THEN 0 - 1 ELSE 1
        g == Gcd(Abs(n), Abs(d))
    IN  IF n = 0 THEN <<0, 1>> ELSE <<(s * n) \div g, (s * d) \div g>>

RInt(n)     == <<n, 1>>
RZero       == <<0, 1>>
ROne        == <<1, 1>>
RAdd(a, b)  == LET g == Gcd(a[2], b[2])
               IN  RNorm(a[1] * (b[2] \div g) + b[1] * (a[2] \div g), (a[2] \div g) * b[2])
RNeg(a)     == <<0 - a[1], a[2]>>
RSub(a, b)  == RAdd(a, RNeg(b))
RMul(a, b)  == LET g1 == Gcd(Abs(a[1]), b[2])
                   g2 == Gcd(Abs(b[1]), a[2])
               IN  RNorm((a[1] \div g1) * (b[1] \div g2), (a[2] \div g2) * (b[2] \div g1))
RInv(a)     == RNorm(a[2], a[1])
RDiv(a, b)  == RMul(a, RInv(b))
RLess(a, b) == a[1] * b[2] < b[1] * a[2]

RECURSIVE RSumSeq(_)
RSumSeq(s) == IF s = <<>> THEN RZero ELSE RAdd(Head(s), RSumSeq(Tail(s)))

IsRat(a) == /\ a[2] > 0 /\ Gcd(Abs(a[1]), a[2]) = 1
=============================================================================
