------------------------------- MODULE Chunks -------------------------------
(* How Carpet splits one grid function over processes, and what joining the   *)
(* pieces must give (property C11, chunk part).                              *)
(*                                                                           *)
(* The interior grid has M[1] x M[2] x M[3] points (x, y, z).  A             *)
(* decomposition is nested rectilinear: z-slabs; every slab has its own      *)
(* y-cuts; every (slab, strip) has its own x-cuts.  A chunk owns a box of    *)
(* interior points and is stored with ghost[a] extra points on either side of *)
(* axis a (neighbour's points or the outer boundary zone; the attribute      *)
(* cctk_nghostzones lists the widths in the order x, y, z), as array         *)
(* [z][y][x], with                                                           *)
(* the attribute iorigin = position of its first stored point.  The pieces   *)
(* are numbered (c = ...) by one of several enumeration orders.              *)
(* Reference semantics: Join(pieces) = the interior grid, indexed (x, y, z). *)
EXTENDS Integers, Sequences, FiniteSets, TLC, Json

CONSTANTS M,           \* <<Mx, My, Mz>>
          Ghosts,      \* set of ghost widths <<gx, gy, gz>> (Carpet allows a different width on every axis)
          CutOptions,  \* CutOptions[n] = set of allowed cut sets for an axis of n points (each a subset of 1..n-1)
          Family,      \* "tensor" | "slab" | "nested" | "xouter" (nested the other way round: x-slabs outermost, each with its
                       \* own y-cuts, each strip with its own z-cuts - outside the family Carpet produces and the reader joins:
                       \* reference semantics "raise, or return exactly the interior grid")
          Orders,      \* set of enumeration orders: "xfast", "zfast", "reversed", "rotated"
          Emit

VARIABLES zc, yc, xc, ghost, order
vars == <<zc, yc, xc, ghost, order>>
(* zc: set of z-cuts.  yc: function slab -> set of y-cuts.  xc: function <<slab, strip>> -> set of x-cuts *)

RECURSIVE SortSet(_)
SortSet(S) == IF S = {} THEN << >> ELSE LET m == CHOOSE x \in S : \A y \in S : x <= y IN <<m>> \o SortSet(S \ {m})

(* intervals [lo, hi) produced by a cut set on 0..n-1 *)
Intervals(n, cuts) == LET s == <<0>> \o SortSet(cuts) \o <<n>>
                      IN  [k \in 1 .. Len(s) - 1 |-> <<s[k], s[k + 1]>>]
NSlabs        == Cardinality(zc) + 1
NStrips(s)    == Cardinality(yc[s]) + 1
NPieces(s, t) == Cardinality(xc[<<s, t>>]) + 1
(* the outermost level cuts axis Outer, the innermost axis Inner (z and x, exchanged for the family "xouter") *)
Outer == IF Family = "xouter" THEN 1 ELSE 3
Inner == IF Family = "xouter" THEN 3 ELSE 1
ZInt(s)       == Intervals(M[Outer], zc)[s]
YInt(s, t)    == Intervals(M[2], yc[s])[t]
XInt(s, t, u) == Intervals(M[Inner], xc[<<s, t>>])[u]

ChunkIds == UNION {{<<k[1], k[2], u>> : u \in 1 .. NPieces(k[1], k[2])} :
                       k \in UNION {{<<s, t>> : t \in 1 .. NStrips(s)} : s \in 1 .. NSlabs}}
Own(c) == IF Family = "xouter" THEN [x |-> ZInt(c[1]), y |-> YInt(c[1], c[2]), z |-> XInt(c[1], c[2], c[3])]
          ELSE [x |-> XInt(c[1], c[2], c[3]), y |-> YInt(c[1], c[2]), z |-> ZInt(c[1])]

(* chunk numbering *)
Key(c) == LET o == Own(c) IN
          CASE order = "xfast"    -> (o.z[1] * 100 + o.y[1]) * 100 + o.x[1]
            [] order = "zfast"    -> (o.x[1] * 100 + o.y[1]) * 100 + o.z[1]
            [] order = "reversed" -> 0 - ((o.z[1] * 100 + o.y[1]) * 100 + o.x[1])
            [] order = "rotated"  -> (o.z[1] * 100 + o.y[1]) * 100 + o.x[1]
Rank(c) == Cardinality({d \in ChunkIds : Key(d) < Key(c)})
Number(c) == IF order = "rotated" THEN (Rank(c) + 1) % Cardinality(ChunkIds) ELSE Rank(c)

(* The decomposition is built cut by cut (z-cuts, then the y-cuts of every slab, then the x-cuts of every *)
(* strip); yc and xc are sequences / functions that grow until every slab and strip has its cuts.         *)
Complete == /\ Len(yc) = Cardinality(zc) + 1
            /\ \A s \in 1 .. Len(yc) : \A t \in 1 .. Cardinality(yc[s]) + 1 : <<s, t>> \in DOMAIN xc
NextStrip == CHOOSE k \in {<<s, t>> : s \in 1 .. Len(yc), t \in 1 .. M[2]} :
                /\ k[2] <= Cardinality(yc[k[1]]) + 1 /\ k \notin DOMAIN xc
                /\ \A j \in {<<s, t>> : s \in 1 .. Len(yc), t \in 1 .. M[2]} :
                      (j[2] <= Cardinality(yc[j[1]]) + 1 /\ j \notin DOMAIN xc) => (k[1] < j[1] \/ (k[1] = j[1] /\ k[2] <= j[2]))
Init == /\ ghost \in Ghosts /\ order \in Orders
        /\ zc \in CutOptions[M[Outer]] /\ yc = << >> /\ xc = << >>
ChooseY == /\ Len(yc) < Cardinality(zc) + 1
           /\ \E c \in CutOptions[M[2]] :
                 /\ (Family = "tensor" /\ yc # << >>) => c = yc[1]
                 /\ yc' = Append(yc, c)
           /\ UNCHANGED <<zc, xc, ghost, order>>
ChooseX == /\ Len(yc) = Cardinality(zc) + 1 /\ ~Complete
           /\ LET k == NextStrip IN
              \E c \in CutOptions[M[Inner]] :
                 /\ (Family = "tensor" /\ DOMAIN xc # {}) => c = xc[<<1, 1>>]
                 /\ (Family = "slab" /\ <<k[1], 1>> \in DOMAIN xc) => c = xc[<<k[1], 1>>]
                 /\ xc' = [j \in (DOMAIN xc) \cup {k} |-> IF j = k THEN c ELSE xc[j]]
           /\ UNCHANGED <<zc, yc, ghost, order>>
Next == ChooseY \/ ChooseX
Spec == Init /\ [][Next]_vars

-----------------------------------------------------------------------------
(* facts about the decomposition (the generator is validated by TLC) *)
InBox(p, o) == /\ p[1] >= o.x[1] /\ p[1] < o.x[2] /\ p[2] >= o.y[1] /\ p[2] < o.y[2] /\ p[3] >= o.z[1] /\ p[3] < o.z[2]
Points == (0 .. M[1] - 1) \X (0 .. M[2] - 1) \X (0 .. M[3] - 1)
Partition == Complete => \A p \in Points : Cardinality({c \in ChunkIds : InBox(p, Own(c))}) = 1
NumbersArePermutation == Complete => {Number(c) : c \in ChunkIds} = 0 .. Cardinality(ChunkIds) - 1
NonEmpty == Complete => \A c \in ChunkIds : LET o == Own(c) IN o.x[1] < o.x[2] /\ o.y[1] < o.y[2] /\ o.z[1] < o.z[2]

EmitDecomposition ==
    (Emit /\ Complete) => PrintT(ToJson([M |-> M, ghost |-> ghost, order |-> order, family |-> Family,
                           chunks |-> {[c |-> Number(c), x |-> Own(c).x, y |-> Own(c).y, z |-> Own(c).z] : c \in ChunkIds}]))
=============================================================================
