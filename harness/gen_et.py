"""Write CarpetIOHDF5-shaped simulation directories from a model state (ETSim / Chunks)."""
import os

import h5py
import numpy as np

GROUPS = {"alp": ("ADMBASE", "admbase-lapse"), "betax": ("ADMBASE", "admbase-shift"),
          "betay": ("ADMBASE", "admbase-shift"), "betaz": ("ADMBASE", "admbase-shift"),
          "rho": ("HYDROBASE", "hydrobase-rho"),
          "vel[0]": ("HYDROBASE", "hydrobase-vel"), "vel[1]": ("HYDROBASE", "hydrobase-vel"), "vel[2]": ("HYDROBASE", "hydrobase-vel"),
          "Bvec[0]": ("HYDROBASE", "hydrobase-bvec"), "Bvec[1]": ("HYDROBASE", "hydrobase-bvec"), "Bvec[2]": ("HYDROBASE", "hydrobase-bvec"),
          "foo": ("MYTHORN", "mythorn-stuff"), "bar": ("MYTHORN", "mythorn-stuff"), "baz": ("MYTHORN", "mythorn-stuff")}
VARS_DEFAULT = ["alp", "betax", "betay", "betaz"]
AUREL_NAME = {"alp": "alpha", "rho": "rho0"}
VARS_VEL = ["alp", "betax", "betay", "betaz", "vel[0]", "vel[1]", "vel[2]"]      # with a vector whose file names carry brackets


def vindex(v):
    return sorted(GROUPS).index(v) + 1


def truth(var, restart, it, rl, M):
    """The interior array (x, y, z) that restart `restart` wrote for (var, it, rl): every entry distinct and decodable."""
    x, y, z = np.meshgrid(np.arange(M[0]), np.arange(M[1]), np.arange(M[2]), indexing="ij")
    base = ((((vindex(var) * 8 + restart) * 4096 + it) * 16 + rl) * 32768)
    return (base + x * 1024 + y * 32 + z).astype(np.float64)


def time_of(it):
    return 1.0 + it / 8.0


def g3(g):
    """Ghost widths per axis (x, y, z); a single number means the same width on every axis."""
    return (g, g, g) if isinstance(g, int) else tuple(int(v) for v in g)


def extended(var, restart, it, rl, M, g):
    """Interior plus g boundary points per side (boundary values negative and position dependent)."""
    gx, gy, gz = g3(g)
    E = -1.0 - np.arange((M[0] + 2 * gx) * (M[1] + 2 * gy) * (M[2] + 2 * gz), dtype=np.float64).reshape(
        M[0] + 2 * gx, M[1] + 2 * gy, M[2] + 2 * gz)
    E[gx:gx + M[0], gy:gy + M[1], gz:gz + M[2]] = truth(var, restart, it, rl, M)
    return E


def piece(E, ch, g):
    """Stored array [z][y][x] of chunk ch = owned box plus the ghost points of each axis on either side."""
    gx, gy, gz = g3(g)
    sub = E[ch["x"][0]:ch["x"][1] + 2 * gx, ch["y"][0]:ch["y"][1] + 2 * gy, ch["z"][0]:ch["z"][1] + 2 * gz]
    return np.ascontiguousarray(np.transpose(sub, (2, 1, 0)))


def strip(p, g):
    """The owned box of a stored piece [z][y][x]."""
    gx, gy, gz = g3(g)
    return p[gz:p.shape[0] - gz, gy:p.shape[1] - gy, gx:p.shape[2] - gx]


def one_chunk(M):
    return [{"c": 0, "x": [0, M[0]], "y": [0, M[1]], "z": [0, M[2]]}]


def write_par(path, M, g=3, nlev=2):
    with open(path, "w") as f:
        f.write('ActiveThorns = "CoordBase Carpet"\n')
        for i, c in enumerate("xyz"):
            f.write(f"CoordBase::{c}min = 0.0\nCoordBase::{c}max = {float(M[i] - 1)}\nCoordBase::d{c} = 1.0\n")
            f.write(f"CoordBase::boundary_shiftout_{c}_lower = 1\nCoordBase::boundary_shiftout_{c}_upper = 1\n")
        f.write(f"Carpet::max_refinement_levels = {nlev}\nIO::out_dir = $parfile\n")


def make_sim(root, simname, restarts, M=(3, 4, 3), ghost=2, chunks=None, layout=("onefile", "ungrouped"),
             nlev=1, variables=None, xyz=False, m0=False, checkpoints=None, restart_numbers=None, active_link=False):
    """restarts: list of dict(lo, hi, every) (iterations = multiples of every in lo..hi).

    Returns {"its": {restart_number: {rl: [its]}}, "files": [...]}"""
    variables = variables or VARS_DEFAULT
    chunks = chunks or one_chunk(M)
    nch = len(chunks)
    written = {"its": {}, "files": []}
    for rn, r in enumerate(restarts):
        rnum = restart_numbers[rn] if restart_numbers else rn
        d = os.path.join(root, simname, f"output-{rnum:04d}", simname)
        os.makedirs(d, exist_ok=True)
        if rn == 0:
            write_par(os.path.join(root, simname, f"output-{rnum:04d}", simname + ".par"), M, nlev=max(2, nlev))
        its = {rl: [i for i in range(r["lo"], r["hi"] + 1) if i % r["every"] == 0] for rl in range(nlev)}
        written["its"][rnum] = its
        handles = {}

        def fh(var, c):
            thorn, group = GROUPS[var]
            base = group if layout[1] == "grouped" else var
            if xyz:
                base += ".xyz"
            name = base + (f".file_{c}" if layout[0] == "proc" else "") + ".h5"
            p = os.path.join(d, name)
            if p not in handles:
                handles[p] = h5py.File(p, "w")
                handles[p].create_group("Parameters and Global Attributes")
                written["files"].append(p)
            return handles[p]

        for var in variables:
            thorn, group = GROUPS[var]
            for rl in range(nlev):
                for it in its[rl]:
                    E = extended(var, rnum, it, rl, M, ghost)
                    for ch in chunks:
                        f = fh(var, ch["c"])
                        key = f"{thorn}::{var} it={it} tl=0" + (" m=0" if m0 else "") + f" rl={rl}"
                        if nch > 1 or layout[0] == "proc":
                            key += f" c={ch['c']}"
                        ds = f.create_dataset(key, data=piece(E, ch, ghost))
                        ds.attrs["cctk_nghostzones"] = np.array(g3(ghost), dtype=np.int32)     # Cactus order: (x, y, z)
                        ds.attrs["iorigin"] = np.array([ch["x"][0], ch["y"][0], ch["z"][0]], dtype=np.int32)
                        ds.attrs["time"] = np.float64(time_of(it))
                        ds.attrs["level"] = np.int32(rl)
                        ds.attrs["name"] = np.bytes_(f"{thorn}::{var}")
        for h in handles.values():
            h.close()
        for cit in (checkpoints or {}).get(rn, []):
            open(os.path.join(d, f"checkpoint.chkpt.it_{cit}.h5"), "w").close()
    if active_link and restarts:
        # simfactory's link to the restart that is (was last) running: not a restart of its own
        last = restart_numbers[-1] if restart_numbers else len(restarts) - 1
        os.symlink(f"output-{last:04d}", os.path.join(root, simname, f"output-{last:04d}-active"))
    return written
