"""C05: spatial curvature, covariant, divergence, curl and Lie derivatives are correct."""
import numpy as np

from .. import geo_replay as GR
from . import geo_common as GC

KEYS = ([(k, k, 1.0) for k in ["s_Gamma_udd3", "s_Riemann_uddd3", "s_Riemann_down3", "s_Ricci_down3", "s_RicciS",
                               "s_Gamma_udd3_bssnok", "s_Gamma_bssnok", "s_Ricci_down3_bssnok", "s_RicciS_bssnok"]]
        + [("sum:s_Ricci_down3_bssnok+phi", "s_Ricci_down3", 1.0)]
        + [("call:s_covd:" + p, "covd_" + (p or "s"), 1.0) for p in ["", "u", "d", "uu", "dd", "ud", "du"]]
        + [("call:s_div:" + p, "div_" + p, 1.0) for p in ["u", "d", "uu", "ud", "du", "dd"]]
        + [("call:s_curl:dd", "curl_dd", 1.0), ("call:st_covd:u", "stcovd_u", 1.0), ("call:st_covd:d", "stcovd_d", 1.0)]
        + [("call:Lie_beta:" + p, "lie_" + (p.replace("s_", "").replace("st_", "st") or "s"), 1.0)
           for p in ["", "s_u", "s_d", "s_uu", "s_dd", "s_ud", "s_du", "st_u", "st_d"]])

BAD_INDEXING = [("x", ValueError), ("s_", None), ("s_uuu", NotImplementedError), ("st_uu", NotImplementedError), ("s_ux", ValueError),
                ("s_u_d", ValueError), ("u", ValueError)]


def extra(run, cases, oracle, tier):
    """Identities on the code's own outputs: the metric is covariantly constant; lowering an index commutes with D;
    the argument-validation table of Lie_beta."""
    for ci, c in enumerate(cases, start=1):
        if oracle.get(ci) is None or ci > (3 if tier == "quick" else len(cases)):
            continue
        copts = {"vacuum": True, "_noT": True} if c.get("vacuum") else None
        seen = {}

        def dgamma(refine):
            rel, idx, F = GR.build_instance(c, oracle[ci], 4, opts=copts, refine=refine)
            at = (...,) + idx
            gam = rel["gammadown3"]
            Dg = np.abs(rel.s_covd(gam, "dd")[at]).max()
            Dgu = np.abs(rel.s_covd(rel["gammaup3"], "uu")[at]).max()
            seen[refine] = (Dg, Dgu, max(1.0, np.abs(gam[at]).max()))
            return max(Dg, Dgu) / seen[refine][2]

        ok, errs = GR.shrinks_under_refinement(dgamma, 4, 2e-5)
        run.count((c["cls"], c["seed"], "Dgamma"))
        if not ok:
            run.violation({"clause": "MetricCovariantlyConstant"},
                          f"D_c gamma_ab = {seen[1][0]:.3g}, D_c gamma^ab = {seen[1][1]:.3g} on the {c['cls']} spacetime (seed {c['seed']}); "
                          f"at half the spacing {seen[2][0]:.3g}, {seen[2][1]:.3g}: not discretisation error of the 4th-order scheme",
                          {"class": c["cls"], "seed": c["seed"]})
        rel, idx, F = GR.build_instance(c, oracle[ci], 4, opts=copts)
        at = (...,) + idx
        gam = rel["gammadown3"]
        tf = GR._test_fields(F)
        def lowering(refine):
            rel2, idx2, F2 = GR.build_instance(c, oracle[ci], 4, opts=copts, refine=refine)
            at2 = (...,) + idx2
            g2, v2 = rel2["gammadown3"], GR._test_fields(F2)["vec"]
            lhs = rel2.s_covd(np.einsum("ab...,b...->a...", g2, v2), "d")[at2]
            rhs = np.einsum("ab,cb->ca", g2[at2], rel2.s_covd(v2, "u")[at2])
            seen["low", refine] = np.abs(lhs - rhs).max()
            return seen["low", refine] / max(1.0, np.abs(rhs).max())

        ok, errs = GR.shrinks_under_refinement(lowering, 4, 2e-5)
        if not ok:
            run.violation({"clause": "LoweringCommutesWithD"},
                          f"D_c (gamma_ab V^b) differs from gamma_ab D_c V^b by {seen['low', 1]:.3g} on the {c['cls']} spacetime "
                          f"({seen['low', 2]:.3g} at half the spacing)", {"class": c["cls"], "seed": c["seed"]})
        for ind, exc in BAD_INDEXING:
            try:
                rel.Lie_beta(tf["ten"], ind)
                got = None
            except Exception as ex:
                got = type(ex)
            run.count(("Lie_beta validation", ind))
            if got is None or (exc is not None and got is not exc):
                run.violation({"clause": "LieBetaArgumentValidation", "indexing": ind},
                              f"Lie_beta(f, {ind!r}) {'returned a value' if got is None else 'raised ' + got.__name__}; "
                              f"the documented behaviour is to raise {exc.__name__ if exc else 'an exception'}", {"indexing": ind})
        run.traces += 1


def run(tier, seed):
    return GC.run_geo("C05", tier, seed, KEYS,
                      "TLC computes, from the jets of the spatial metric, the shift and of test scalar / vector / rank-2 / 4-vector fields, the spatial "
                      "Christoffel symbols, Riemann, Ricci and scalar, the Christoffel symbols and Ricci tensor of the conformal metric, the "
                      "covariant derivative for '', u, d, uu, dd, ud, du, all divergences, the curl, the spacetime covariant derivative of "
                      "4-vectors and the Lie derivative along the shift for every supported rank / index pattern with density weights "
                      "{0, 1/6, 2/3, -2/3, 1}, from their definitions in exact arithmetic; every real key and helper call is compared at the probe "
                      "point; D gamma = 0, lowering commutes with D and the Lie_beta argument-validation table are evaluated on the code",
                      extra_checks=extra)


def replay(path):
    print("re-run ./check C05 quick")
    return 1
