--------------------------- MODULE SpinHarmonics ---------------------------
(* Spin-weighted spherical harmonics (property C20), exactly.                *)
(*                                                                           *)
(* sYlm(theta, phi) = sqrt(Fac2(s,l,m) / (4 pi)) * U(s,l,m)(c, d) * e^(i m phi)  *)
(* with c = cos(theta/2), d = sin(theta/2) and U a homogeneous polynomial of *)
(* degree 2l in (c, d) with integer coefficients (Goldberg et al. 1967,      *)
(* eq. 3.1 - the definition the library cites).  Everything below is exact   *)
(* arithmetic modulo the prime P (Fp.tla); the harness runs one model per    *)
(* prime and lifts the residues (CRT).                                       *)
(*                                                                           *)
(* The closed form is VALIDATED by TLC against facts it was not written      *)
(* from, for every (s, l, m) offered:                                        *)
(*   Orthonormal        int sYlm conj(sYl'm) dOmega = delta_ll'  (exact Beta  *)
(*                      integrals of the polynomial products; orthogonality  *)
(*                      in m is the e^(i m phi) factor)                      *)
(*   SpinZeroIsLegendre 0Ylm = (-1)^m sqrt((2l+1)/(4pi) (l-m)!/(l+m)!)       *)
(*                      P_l^m(cos), P_l from Bonnet's recurrence, P_l^m with *)
(*                      the Condon-Shortley phase (so the library's spin-0   *)
(*                      harmonics are the ordinary ones WITHOUT that phase)  *)
(*   Ladder             eth sYlm = sqrt((l-s)(l+s+1)) (s+1)Ylm  with         *)
(*                      eth F = -F' + (s cos + m)/sin F   (anchors every     *)
(*                      spin weight to spin 0)                               *)
(*   Conjugation        conj(sYlm) = (-1)^(s+m) (-s)Yl(-m)                   *)
EXTENDS Fp, Sequences, FiniteSets, TLC, Json

CONSTANTS SMax,   \* spin weights -SMax .. SMax
          LMax    \* degrees up to LMax

VARIABLE st       \* [s, l, m]
vars == <<st>>

Triples == {t \in [s : (0 - SMax) .. SMax, l : 0 .. LMax, m : (0 - LMax) .. LMax] :
              /\ t.l >= (IF t.s < 0 THEN 0 - t.s ELSE t.s) /\ t.m <= t.l /\ 0 - t.m <= t.l}
Init == st \in Triples
Next == UNCHANGED st
Spec == Init /\ [][Next]_vars

-----------------------------------------------------------------------------
RECURSIVE Bin(_, _)
Bin(n, k) == IF k < 0 \/ k > n THEN 0 ELSE IF k = 0 THEN 1 ELSE Dv(Mu(Bin(n, k - 1), n - k + 1), k)
Sign(e)   == IF e % 2 = 0 THEN 1 ELSE Ng(1)          \* (-1)^e for any integer e (TLA+ % is non-negative)
Max2(a, b) == IF a > b THEN a ELSE b
Min2(a, b) == IF a < b THEN a ELSE b

(* homogeneous polynomials of degree n in (c, d): function 0 .. n -> residue, index = exponent of c *)
Deg(p)        == Cardinality(DOMAIN p) - 1
PZero(n)      == [a \in 0 .. n |-> 0]
PAdd(p, q)    == [a \in DOMAIN p |-> Ad(p[a], q[a])]
PSub(p, q)    == [a \in DOMAIN p |-> Sb(p[a], q[a])]
PScale(k, p)  == [a \in DOMAIN p |-> Mu(k, p[a])]
PMul(p, q)    == LET n == Deg(p) + Deg(q)
                     RECURSIVE S(_, _)
                     S(a, i) == IF i > Deg(p) THEN 0
                                ELSE Ad(IF a - i >= 0 /\ a - i <= Deg(q) THEN Mu(p[i], q[a - i]) ELSE 0, S(a, i + 1))
                 IN  [a \in 0 .. n |-> S(a, 0)]
RECURSIVE PPow(_, _)
PPow(p, k)    == IF k = 0 THEN [a \in 0 .. 0 |-> 1] ELSE PMul(p, PPow(p, k - 1))
(* d/dtheta: c' = -d/2, d' = c/2 *)
PDtheta(p)    == LET n == Deg(p) IN
                 [k \in 0 .. n |-> Ad(IF k + 1 <= n THEN Ng(Mu(Mu(k + 1, Half), p[k + 1])) ELSE 0,
                                      IF k >= 1 THEN Mu(Mu(n - (k - 1), Half), p[k - 1]) ELSE 0)]
CD   == [a \in 0 .. 2 |-> IF a = 1 THEN 1 ELSE 0]                       \* c d   (sin theta = 2 c d)
C2mD2 == [a \in 0 .. 2 |-> IF a = 2 THEN 1 ELSE IF a = 0 THEN Ng(1) ELSE 0]   \* c^2 - d^2 = cos theta
C2pD2 == [a \in 0 .. 2 |-> IF a = 1 THEN 0 ELSE 1]                      \* c^2 + d^2 = 1
(* int_0^pi c^a d^b sin(theta) dtheta = 2 / ((p+q+1) C(p+q, p)) for a = 2p, b = 2q; odd exponents carry a factor pi and *)
(* must not occur in the products integrated here                                                                       *)
IntMono(a, b) == LET p == a \div 2 q == b \div 2 IN Dv(2, Mu(p + q + 1, Bin(p + q, p)))
OnlyEven(p)   == \A a \in DOMAIN p : a % 2 = 1 => p[a] = 0
PInt(p)       == LET n == Deg(p)
                     RECURSIVE S(_)
                     S(a) == IF a > n THEN 0 ELSE Ad(IF a % 2 = 0 THEN Mu(p[a], IntMono(a, n - a)) ELSE 0, S(a + 1))
                 IN  S(0)

-----------------------------------------------------------------------------
(* the closed form (Goldberg et al. 1967, eq. 3.1) *)
U(s, l, m) == [a \in 0 .. 2 * l |->
                  LET e == a - s + m IN
                  IF e % 2 # 0 THEN 0
                  ELSE LET r == e \div 2 IN
                       IF e < 0 \/ r < Max2(m - s, 0) \/ r > Min2(l + m, l - s) THEN 0
                       ELSE Mu(Mu(Bin(l - s, r), Bin(l + s, r + s - m)), Sign(l - r - s))]
Fac2(s, l, m) == Dv(Mu(2 * l + 1, Bin(2 * l, l + s)), Bin(2 * l, l + m))    \* times 1/(4 pi)

(* ---- orthonormality over the sphere ---- *)
Abs(x) == IF x < 0 THEN 0 - x ELSE x
Orthonormal ==
    LET s == st.s l == st.l m == st.m u == U(s, l, m) IN
    \A l2 \in Max2(Abs(s), Abs(m)) .. LMax :
        LET pr == PMul(u, U(s, l2, m)) IN
        /\ OnlyEven(pr)
        /\ IF l2 = l THEN Mu(Mu(Half, Fac2(s, l, m)), PInt(pr)) = 1         \* 2 pi / (4 pi) Fac2 int U^2 = 1
           ELSE PInt(pr) = 0

(* ---- spin 0: ordinary spherical harmonics from Legendre polynomials ---- *)
(* P_n as sequence of coefficients of x^0 .. x^n, Bonnet: (n+1) P_(n+1) = (2n+1) x P_n - n P_(n-1) *)
RECURSIVE Leg(_)
Coef(p, k) == IF k >= 1 /\ k <= Len(p) THEN p[k] ELSE 0
Leg(n) == IF n = 0 THEN <<1>> ELSE IF n = 1 THEN <<0, 1>>
          ELSE LET a == Leg(n - 1) b == Leg(n - 2) IN
               [k \in 1 .. n + 1 |-> Dv(Sb(Mu(2 * n - 1, Coef(a, k - 1)), Mu(n - 1, Coef(b, k))), n)]
RECURSIVE DerivX(_, _)
DerivX(p, m) == IF m = 0 THEN p
                ELSE IF Len(p) <= 1 THEN <<0>>
                ELSE DerivX([k \in 1 .. Len(p) - 1 |-> Mu(k, p[k + 1])], m - 1)
(* Q(x) of degree n homogenised to degree 2n in (c, d): x^k -> (c^2 - d^2)^k (c^2 + d^2)^(n - k) *)
Homog(q, n) == LET RECURSIVE S(_)
                   S(k) == IF k > n THEN PZero(2 * n)
                           ELSE PAdd(PScale(Coef(q, k + 1), PMul(PPow(C2mD2, k), PPow(C2pD2, n - k))), S(k + 1))
               IN  S(0)
RECURSIVE Rising(_, _)
Rising(l, m) == IF m = 0 THEN 1 ELSE Mu(Rising(l, m - 1), l + m)            \* (l+m)! / l!
(* P_l^m (cos theta) = (-1)^m sin^m d^m/dx^m P_l,  m >= 0 *)
Plm(l, m) == PScale(Mu(Sign(m), PowM(2, m)), PMul(PPow(CD, m), Homog(DerivX(Leg(l), m), l - m)))
(* Phase convention: Goldberg's closed form carries no Condon-Shortley phase, 0Ylm = (-1)^m Ylm(Condon-Shortley); *)
(* Plm above is the associated Legendre function WITH the Condon-Shortley phase.                                  *)
SpinZeroIsLegendre ==
    (st.s = 0 /\ st.m >= 0) => PScale(Rising(st.l, st.m), U(0, st.l, st.m)) = PScale(Sign(st.m), Plm(st.l, st.m))

(* ---- spin raising: 2 c d (l - s) U(s+1) = -2 c d U(s)' + ((s+m) c^2 + (m-s) d^2) U(s) ---- *)
Ladder ==
    LET s == st.s l == st.l m == st.m u == U(s, l, m) IN
    (s < SMax /\ s + 1 <= l) =>
        LET lhs == PMul(PScale(Rd(2 * (l - s)), CD), U(s + 1, l, m))
            w   == [a \in 0 .. 2 |-> IF a = 2 THEN Rd(s + m) ELSE IF a = 0 THEN Rd(m - s) ELSE 0]
            rhs == PAdd(PScale(Ng(2), PMul(CD, PDtheta(u))), PMul(w, u))
        IN  lhs = rhs
(* at the top of the ladder the raising operator annihilates *)
LadderTop ==
    LET s == st.s l == st.l m == st.m u == U(s, l, m) IN
    (s = l) =>
        LET w == [a \in 0 .. 2 |-> IF a = 2 THEN Rd(s + m) ELSE IF a = 0 THEN Rd(m - s) ELSE 0]
        IN  PAdd(PScale(Ng(2), PMul(CD, PDtheta(u))), PMul(w, u)) = PZero(2 * l + 2)

(* ---- complex conjugation ---- *)
Conjugation == U(st.s, st.l, st.m) = PScale(Sign(st.s + st.m), U(0 - st.s, st.l, 0 - st.m))

Emit == PrintT(ToJson([s |-> st.s, l |-> st.l, m |-> st.m, P |-> P,
                       coef |-> [k \in 1 .. 2 * st.l + 1 |-> U(st.s, st.l, st.m)[k - 1]],
                       fac2 |-> Fac2(st.s, st.l, st.m)]))
=============================================================================
