"""Conformance of aurel.over_time with spec/overtime/OverTime.tla."""
import copy
import json
import multiprocessing as mp
import os

import numpy as np

from . import fields
from .cache_engine import max_diff
from .extract import digest
from .tlc import run_tlc, wrapper

IN_SCALARS = ["alpha", "wave"]          # wave changes sign on the grid (|.| estimators differ from the plain ones)
IN_OTHERS = ["gammadown3", "Kdown3", "betaup3"]
SCALAR_VARS = ["gammadet", "curv"]       # curv is a custom variable (function of the AurelCore instance)
TENSOR_VARS = ["Kup3"]
IN_REQUESTABLE = ["alpha"]               # an input column that is also a built-in variable: requesting it must leave it alone
ESTIMATES = ["max", "p5"]                # p5 is a custom estimator
STEPS = [1, 2, 3]


def curv(rel):
    return rel["Ktrace"] ** 2 + rel["gammadet"]


def heavy(rel):
    # needs many calculations: a clean-up fires while it runs (C03 through the time-series driver)
    return rel["Hamiltonian"] + rel["gammadet"] + rel["s_RicciS"] * rel["alpha"]


def p5(a):
    return a[1, 2, 3]


BUILTIN_ESTS = {   # independent definitions of the documented estimators
    "max": np.max, "mean": np.mean, "quartile1": lambda a: np.percentile(a, 25), "median": lambda a: np.percentile(a, 50),
    "quartile3": lambda a: np.percentile(a, 75), "min": np.min, "sum": np.sum, "std": np.std, "var": np.var,
    "maxabs": lambda a: np.abs(a).max(), "minabs": lambda a: np.abs(a).min(), "meanabs": lambda a: np.abs(a).mean(),
    "quartile1abs": lambda a: np.percentile(np.abs(a), 25), "medianabs": lambda a: np.percentile(np.abs(a), 50),
    "quartile3abs": lambda a: np.percentile(np.abs(a), 75), "sumabs": lambda a: np.abs(a).sum(), "stdabs": lambda a: np.abs(a).std(),
    "varabs": lambda a: np.abs(a).var(),
    "x0y0z0": lambda a: a[0, 0, 0], "x0y0z1": lambda a: a[0, 0, -1], "x0y1z0": lambda a: a[0, -1, 0], "x0y1z1": lambda a: a[0, -1, -1],
    "x1y0z0": lambda a: a[-1, 0, 0], "x1y0z1": lambda a: a[-1, 0, -1], "x1y1z0": lambda a: a[-1, -1, 0], "x1y1z1": lambda a: a[-1, -1, -1],
}
def cpx(rel):
    # a complex-valued scalar field (like the Weyl scalars)
    return rel["Ktrace"] + 1j * rel["gammadet"]


def int0d(a):
    # a weighted sum over the grid written with tensordot: the result is a 0-d array, not a Python / numpy scalar
    w = np.ones(a.shape) / a.size
    return np.tensordot(a, w, axes=3)


CUSTOM_VARS = {"curv": curv, "heavy": heavy, "cpx": cpx}
CUSTOM_ESTS = {"p5": p5, "int0d": int0d}


ALL_TKEYS = '{{"it"}, {"t"}, {"it", "t"}, {"iteration"}, {"it", "time"}}'


def run_spec(max_calls, simulate=None, seed=None, steps=STEPS, scalar_vars=SCALAR_VARS, tensor_vars=None, estimates=None, tkeys=ALL_TKEYS):
    q = lambda s: '"' + s + '"'
    st = lambda xs: "{" + ", ".join(q(x) for x in xs) + "}"
    defs = {"Steps": "{" + ",".join(map(str, steps)) + "}", "InScalars": st(IN_SCALARS), "InOthers": st(IN_OTHERS),
            "TemporalKeys": tkeys, "ScalarVars": st(scalar_vars),
            "TensorVars": st(TENSOR_VARS if tensor_vars is None else tensor_vars),
            "Estimates": st(ESTIMATES if estimates is None else estimates), "InRequestable": st(IN_REQUESTABLE)}
    name, text, cl = wrapper("OverTime", defs)
    cfg = f"""SPECIFICATION Spec
CONSTANTS
{cl}
  MaxCalls = {max_calls}
  Emit = TRUE
INVARIANT SplitInvariant
INVARIANT InputsPreserved
INVARIANT EstimatesOnlyOfScalars
INVARIANT EmitState
PROPERTY NoColumnLost
"""
    kw = {}
    if simulate:
        kw = dict(simulate=f"num={simulate}", depth=max_calls + 1, seed=seed)
    return run_tlc(name, cfg, ["overtime"], extra_files={name + ".tla": text}, timeout=3000, **kw)


_FD = None
_STEP_INPUTS = {}


def fd():
    global _FD
    if _FD is None:
        _FD = fields.make_fd(N=7, order=4)
    return _FD


def step_inputs(step):
    if step not in _STEP_INPUTS:
        d = fields.generic_inputs(fd(), 40 + step, "tensors")
        f = fd()
        d["wave"] = np.sin(3.0 * f.x + 2.0 * f.y - f.z + step) * (1.0 + 0.1 * step)      # a user column the library does not know
        _STEP_INPUTS[step] = {k: d[k] for k in IN_SCALARS + IN_OTHERS}
    return _STEP_INPUTS[step]


_FRESH = {}


def fresh_value(step, v, rel_kwargs):
    key = (step, v, json.dumps(rel_kwargs, sort_keys=True))
    if key not in _FRESH:
        import aurel.core as core
        rel = core.AurelCore(fd(), verbose=False, **rel_kwargs)     # physical options only (Lambda, vacuum)
        for k, a in step_inputs(step).items():
            rel.data[k] = a.copy()
        rel.freeze_data()
        _FRESH[key] = CUSTOM_VARS[v](rel) if v in CUSTOM_VARS else rel[v]
    return _FRESH[key]


TKEY_ORDER = ["it", "iteration", "t", "time"]        # the driver sorts by the LAST of these that is present
TKEY_SCALE = {"it": 1, "iteration": 1, "t": 0.5, "time": 0.5}


def first_key_permuted(order, tkeys):
    """With two temporal keys the driver sorts by the LAST one; the other one may order the rows differently (an iteration
    counter that was reset at a restart): used for the tables whose first row is an odd step."""
    return len(tkeys) == 2 and order[0] % 2 == 1


def key_value(k, s, order, tkeys):
    present = [x for x in TKEY_ORDER if x in tkeys]
    if first_key_permuted(order, tkeys) and k == present[0]:
        s = (s % len(order)) + 1
    return int(s) if TKEY_SCALE[k] == 1 else TKEY_SCALE[k] * s


def make_table(order, tkeys):
    t = {}
    for k in TKEY_ORDER:
        if k in tkeys:
            t[k] = [key_value(k, s, order, tkeys) for s in order]
    for c in IN_SCALARS + IN_OTHERS:
        t[c] = [step_inputs(s)[c].copy() for s in order]
    return t


_evicted_inputs = []


_in_step = [0]


def _watch_evictions():
    """Class-level wrapper: records input columns evicted from the AurelCore of a time step while the driver processes
    that step (the throw-away instance over_time uses to validate a custom function holds no inputs and is not watched)."""
    import aurel.core as core
    import aurel.time as atime
    C = core.AurelCore
    if getattr(C, "_verif_watch", False):
        return
    orig = C.cleanup_cache
    orig_step = atime.process_single_timestep

    def watched(self):
        before = set(dict.keys(self.data))
        orig(self)
        if _in_step[0]:
            gone = before - set(dict.keys(self.data))
            for k in gone:
                if k in IN_SCALARS + IN_OTHERS:
                    _evicted_inputs.append((k, int(self.calculation_count)))

    def step(*a, **kw):
        _in_step[0] += 1
        try:
            return orig_step(*a, **kw)
        finally:
            _in_step[0] -= 1
    C.cleanup_cache = watched
    atime.process_single_timestep = step
    C._verif_watch = True


def check_behaviour(job):
    st, rel_kwargs = job
    import aurel
    findings = []
    _watch_evictions()
    del _evicted_inputs[:]
    tkeys = list(st["tkeys"])
    data = make_table(list(st["init_order"]), tkeys)
    tkey = [k for k in TKEY_ORDER if k in tkeys][-1]
    scale_t = TKEY_SCALE[tkey]
    txt = []
    for n, h in enumerate(st["hist"], start=1):
        if h["op"] == "shuffle":
            cur = [int(round(float(x) / scale_t)) for x in data[tkey]]
            perm = [cur.index(s) for s in h["order"]]
            data = {k: [v[i] for i in perm] for k, v in data.items()}
            txt.append(f"rows shuffled to {h['order']}")
            continue
        V = sorted(h["vars"])
        Ev = sorted(h["ests"])
        vars_arg = [({v: CUSTOM_VARS[v]} if v in CUSTOM_VARS else v) for v in V]
        ests_arg = [({e: CUSTOM_ESTS[e]} if e in CUSTOM_ESTS else e) for e in Ev]
        vsnap, esnap = list(vars_arg), list(ests_arg)
        in_digest = {k: [digest(np.asarray(x)) for x in v] for k, v in data.items()}
        held = {k: list(v) for k, v in data.items()}
        txt.append(f"over_time(vars={V}, estimates={Ev})")
        where = f"rows {st['init_order']}, temporal key {tkeys}; " + "; ".join(txt) + (f" [{rel_kwargs}]" if rel_kwargs else "")
        try:
            out = aurel.over_time(data, fd(), vars=vars_arg, estimates=ests_arg, verbose=False, **rel_kwargs)
        except Exception as ex:
            findings.append(("C14", {"clause": "DriverReturns", "exc": type(ex).__name__},
                             f"{where}: raised {type(ex).__name__}: {str(ex)[:200]}", {"state": st, "step": n, "rel_kwargs": rel_kwargs}))
            return findings
        if _evicted_inputs:
            findings.append(("C03", {"clause": "FrozenNeverEvicted", "via": "over_time"},
                             f"{where}: input column(s) of a time step were evicted from the AurelCore cache while the driver computed: "
                             f"{_evicted_inputs[:3]}", {"state": st, "step": n, "rel_kwargs": rel_kwargs}))
            del _evicted_inputs[:]
        # C02: the caller's argument lists and per-step arrays are untouched
        if vars_arg != vsnap or ests_arg != esnap:
            findings.append(("C02", {"clause": "ArgsUntouched", "call": "over_time", "arg": "vars/estimates"},
                             f"{where}: over_time modified its vars/estimates argument lists", {"state": st, "step": n}))
        for k, lst in held.items():
            for i, x in enumerate(lst):
                if digest(np.asarray(x)) != in_digest[k][i]:
                    findings.append(("C02", {"clause": "NoInPlaceWrite", "written": f"over_time input column {k}"},
                                     f"{where}: the per-step array {k}[row {i}] passed to over_time was modified in place",
                                     {"state": st, "step": n, "column": k}))
                    break
        data = out
    # ---- final table against the spec's columns and the per-step oracle
    where = f"rows {st['init_order']}, temporal key {tkeys}; " + "; ".join(txt) + (f" [{rel_kwargs}]" if rel_kwargs else "")
    want_cols = {c["name"] for c in st["cols"]} | set(tkeys)
    got_cols = set(data.keys())
    if got_cols != want_cols:
        findings.append(("C14", {"clause": "Columns", "missing": sorted(want_cols - got_cols), "extra": sorted(got_cols - want_cols)},
                         f"{where}: table has columns {sorted(got_cols)}, the specification says {sorted(want_cols)}",
                         {"state": st, "rel_kwargs": rel_kwargs}))
        return findings
    nrows = len(st["init_order"])
    if any(len(data[k]) != nrows for k in data):
        findings.append(("C14", {"clause": "ColumnsAligned"}, f"{where}: columns have different lengths "
                         f"{ {k: len(v) for k, v in data.items()} }", {"state": st}))
        return findings
    steps = [int(round(float(x) / scale_t)) for x in data[tkey]]
    if st["sorted"] and steps != sorted(steps):
        findings.append(("C14", {"clause": "RowsSorted"}, f"{where}: rows are not ordered by the temporal key: {list(data[tkey])}", {"state": st}))
    if sorted(steps) != sorted(st["init_order"]):
        findings.append(("C14", {"clause": "RowsPreserved"}, f"{where}: temporal column is {list(data[tkey])}", {"state": st}))
        return findings
    for c in st["cols"]:
        name = c["name"]
        for row, s in enumerate(steps):
            cell = data[name][row]
            if c["kind"] == "in":
                ok = np.array_equal(np.asarray(cell), step_inputs(s)[name])
                clause, detail = "InputsPreserved", "is not the input of that step (columns not permuted together?)"
            elif c["kind"] == "var":
                ref = fresh_value(s, name, {k: v for k, v in rel_kwargs.items() if k in ("Lambda", "vacuum")})
                r = max_diff(np.asarray(cell), ref)
                ok = r is not None and r[0] <= 1e-9 * r[1]
                clause, detail = "ValEqualsFresh", f"differs from a fresh per-step computation (max abs diff {None if r is None else r[0]:.3g})"
            else:
                src = np.asarray(data[c["of"]][row])
                orig = step_inputs(s)[c["of"]] if c["of"] in step_inputs(s) else src   # estimator of the array as it was handed in
                refv = CUSTOM_ESTS[c["e"]](orig) if c["e"] in CUSTOM_ESTS else BUILTIN_ESTS[c["e"]](orig.copy())
                ok = np.isclose(cell, refv, rtol=1e-12, atol=0)
                clause, detail = "EstEqualsEstimator", f"= {cell}, estimator on the array in the same row gives {refv}"
            if not ok:
                for k in tkeys:
                    pass
                findings.append(("C14", {"clause": clause, "column_kind": c["kind"], "column": name if c["kind"] != "est" else c["e"]},
                                 f"{where}: cell ({name}, step {s}) {detail}", {"state": st, "rel_kwargs": rel_kwargs, "column": name, "step": s}))
                break
    if len(tkeys) == 2:
        a, b = [k for k in TKEY_ORDER if k in tkeys]
        init = list(st["init_order"])
        if [float(x) for x in data[a]] != [float(key_value(a, s, init, tkeys)) for s in steps]:
            findings.append(("C14", {"clause": "InputsPreserved", "column_kind": "temporal"},
                             f"{where}: the two temporal columns were not permuted together: {list(data[a])} / {list(data[b])}", {"state": st}))
    return findings


def pmap(fn, jobs, procs=16):
    if len(jobs) < 8:
        return [fn(j) for j in jobs]
    with mp.get_context("fork").Pool(procs) as pool:
        return pool.map(fn, jobs, chunksize=max(1, len(jobs) // (procs * 8)))
