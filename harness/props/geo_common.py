"""Shared runner of the probe-point geometry checks (C04, C05, C06, C10, C19)."""
import json
import time

import numpy as np

from .. import geo_engine as GE
from .. import geo_replay as GR
from .. import jets as J
from .. import spacetime as ST
from ..common import Run


def make_cases(tier, seed, classes=None):
    classes = classes or ST.CLASSES
    cases = []
    nseeds = 1 if tier == "quick" else 4
    for cls in classes:
        for s in range(nseeds):
            cases.append(ST.make_case(cls, seed * 100 + s + 1))
    if tier == "quick":
        cases.append(ST.make_case(ST.CLASSES[0], seed * 100 + 7))
        cases.append(ST.make_case(ST.CLASSES[0], seed * 100 + 8))
    if classes is None or any(c.get("name") == "wave-zone" for c in classes) or True:
        cases += ST.vacuum_cases(seed)      # exact vacuum solutions: run with vacuum=True and no stress-energy tensor
    return cases


def plan_jobs(cases, oracle, keys, tier, opts=None):
    """(case index, order, probe) combinations: every case at order 4 interior; two cases at every order; two at the corner / face."""
    jobs = []
    for ci, c in enumerate(cases, start=1):
        if oracle.get(ci) is None:
            continue
        combos = [(4, "interior")]
        if tier == "thorough" or ci in (1, 2):
            combos += [(2, "interior"), (6, "interior"), (8, "interior"), (4, "corner")]
        if tier == "thorough" or ci == 1:
            combos += [(4, "face"), (4, "edge"), (2, "corner")]
        o = dict(opts or {})
        if c.get("vacuum"):
            o.update({"vacuum": True, "_noT": True})
        for order, probe in combos:
            jobs.append((ci, order, probe, (c, oracle[ci], order, probe, keys, o)))
    return jobs


def run_geo(pid, tier, seed, keys, what_text, sig_extra=None, classes=None, opts=None, post=None, extra_checks=None, variants=None,
            histories=True):
    """variants: list of (label, opts, keys) run in addition to ("", opts, keys)."""
    run = Run(pid, tier, seed)
    assert J.selftest()
    cases = make_cases(tier, seed, classes)
    t0 = time.time()
    oracle, res, unlucky = GR.run_oracle(cases)
    for r in res:
        run.add_tlc(GE.FakeRes(r), f"ThreePlusOne modulo {r['p']}: {len(cases)} spacetimes, oracle identities checked")
    # vacuity guard: the spacetimes run with vacuum=True must be vacuum according to the oracle itself
    for ci, cse in enumerate(cases, start=1):
        o = oracle.get(ci)
        if o and cse.get("vacuum") and any(v != 0 for v in o.get("kappaT", []) if v is not None):
            raise RuntimeError(f"the {cse['cls']} case is not a vacuum solution according to the oracle: G_ab = {o['kappaT']}")
    run.info["oracle_wall_s"] = round(time.time() - t0, 1)
    run.info["unlucky_case_prime_pairs"] = unlucky
    run.info["oracle_values_not_reconstructed"] = sum(1 for o in oracle.values() if o for v in o.values() for x in v if x is None)
    jobs = [j + ("",) for j in plan_jobs(cases, oracle, keys, tier, opts)]
    for label, vopts, vkeys in (variants or []):
        jobs += [j + (label,) for j in plan_jobs(cases, oracle, vkeys, "quick" if tier == "quick" else tier, vopts)]
    # the same keys with every input tensor handed over by its scalar components (gxx.., kxx.., betax.., dtbetax..)
    for ci, cse in enumerate(cases, start=1):
        if oracle.get(ci) is None:
            continue
        vo = dict(opts or {})
        vo["_components"] = True
        if cse.get("vacuum"):
            vo.update({"vacuum": True, "_noT": True})
        jobs.append((ci, 4, "interior", (cse, oracle[ci], 4, "interior", keys, vo), "inputs given component-wise"))
        jobs.append((ci, 4, "interior", (cse, oracle[ci], 4, "interior", keys, dict(vo, _reversed=True)), "inputs given component-wise, keys in reverse order"))
        if cse["cls"] == "z-shift":
            jobs.append((ci, 4, "interior", (cse, oracle[ci], 4, "interior", keys, dict(vo, _components="sparse")),
                         "inputs given component-wise, vanishing shift components omitted"))
            jobs.append((ci, 4, "interior", (cse, oracle[ci], 4, "interior", keys, dict(vo, _components="sparse", _reversed=True)),
                         "inputs given component-wise, vanishing shift components omitted, keys in reverse order"))
            # and every key as the very first request of a fresh instance (nothing has assembled the shift vector yet)
            for kspec in keys:
                jobs.append((ci, 4, "interior", (cse, oracle[ci], 4, "interior", [kspec], dict(vo, _components="sparse")),
                             "inputs given component-wise, vanishing shift components omitted, first request of a fresh instance"))
        if not cse.get("vacuum"):
            jobs.append((ci, 4, "interior", (cse, oracle[ci], 4, "interior", keys, dict(opts or {}, _kappa=1.0)), "Einstein's constant kappa = 1 (units 8 pi G = 1)"))
        va = dict(opts or {})
        va["_aniso"] = (1.0, 0.8, 1.25)
        if cse.get("vacuum"):
            va.update({"vacuum": True, "_noT": True})
        jobs.append((ci, 4, "interior", (cse, oracle[ci], 4, "interior", keys, va), "grid with dx != dy != dz"))
    if histories:
        hv, mres = history_variants(keys, tier)
        run.add_tlc(mres, "AurelCache on the extracted graph, 2 requests, nothing evicted: pre-histories for the compared keys")
        run.info["pre_histories"] = [h[0] for h in hv]
        sel = [ci for ci in range(1, len(cases) + 1) if oracle.get(ci) is not None][: (2 if tier == "quick" else 8)]
        for label, vopts, vkeys in hv:
            vo = dict(opts or {})
            vo.update(vopts)
            for ci in sel + [k for k in range(1, len(cases) + 1) if cases[k - 1].get("vacuum") and oracle.get(k) is not None]:
                vo2 = dict(vo)
                if cases[ci - 1].get("vacuum"):
                    vo2.update({"vacuum": True, "_noT": True})
                jobs.append((ci, 4, "interior", (cases[ci - 1], oracle[ci], 4, "interior", vkeys, vo2), label))
    outs = GR.pmap(GR.compare_keys, [j[3] for j in jobs])
    for (ci, order, probe, job, label), mm in zip(jobs, outs):
        c = cases[ci - 1]
        nontrivial = c["cls"] not in ("minkowski-like",)
        for kspec in job[4]:
            code_key = kspec[0]
            run.count((c["cls"], c["seed"], code_key, order, probe) if nontrivial else None)
        if not mm:
            run.traces += 1
        for m in mm:
            if m.get("error") and "machinery" in m["error"]:
                raise RuntimeError(m["error"])
            sig = {"clause": "TextbookValue", "key": m["key"], "needs": needs_of(c)}
            if label:
                sig["variant"] = "after-history" if label.startswith("after ") else label
            if m.get("error"):
                sig["exc"] = m["error"].split(":")[0]
            run.violation(sig,
                          (f"[{label}] " if label else "") + f"rel[{m['key']!r}] on the {c['cls']} spacetime (seed {c['seed']}, fd_order={order}, probe at the grid {probe}): "
                          + (m["error"] if m.get("error") else
                             f"component {m['component']} = {m['got']!r}, the textbook value is {m['exact']} "
                             f"({m['nbad']} of {m['ncomp']} components off by more than the discretisation bound, max abs error {m['maxerr']:.3g})"),
                          {"class": c["cls"], "seed": c["seed"], "order": order, "probe": probe, "key": m["key"], "detail": m})
    if extra_checks:
        extra_checks(run, cases, oracle, tier)
    c = cases[0]
    run.sample({"spacetime_class": c["cls"], "seed": c["seed"],
                "alpha_jet": {str(m): str(v) for m, v in c["alpha"].c.items() if v != 0},
                "gamma_xx_jet": {str(m): str(v) for m, v in c["gam"][(0, 0)].c.items() if v != 0},
                "oracle": {k: [str(x) for x in oracle[1][k][:4]] for k in list(oracle[1])[:6]} if oracle.get(1) else None})
    run.rule = what_text
    run.assumptions = ["comparison at one probe point per grid, tolerance 2e-4 (order 2, h=1e-3) / 2e-5 (orders 4-8) times the largest component",
                       "T_mu_nu := (G_mu_nu + Lambda g_mu_nu)/kappa from the oracle, supplied as a constant field (only used undifferentiated)",
                       "exact values are lifted from residues modulo 10 primes; values that do not reconstruct are skipped and counted"]
    return run.finish()


_PRE_CACHE = {}


def history_variants(keys, tier):
    """Pre-histories from the cache model: every first request k1 of a two-request history that is the shortest one reaching
    some (key, branch) of the evaluation programs.  The property's keys are evaluated again after each of them."""
    from .. import cachemodel as M
    from .. import extract as X
    if "v" not in _PRE_CACHE:
        graph = X.extract({})
        res = M.run_model(graph, M.INPUT_SETS["tensors"], graph["keys"], 2, 10 ** 6, emit=True,
                          invariants=["NoReentrancy", "NoUnexplored", "StackBounded"], properties=[])
        pres = []
        for p in res.printed:
            if isinstance(p, dict) and p.get("hist") and len(p["hist"]) == 2 and p["hist"][0] not in pres:
                pres.append(p["hist"][0])
        _PRE_CACHE["v"] = (pres, res)
    pres, res = _PRE_CACHE["v"]
    return [("after " + k1, {"_pre": [k1]}, keys) for k1 in pres], res


def needs_of(c):
    cls = {x["name"]: x for x in ST.CLASSES}.get(c["cls"], {"shift": "zero"})
    return ("shift" if cls["shift"] != "zero" else "any")
