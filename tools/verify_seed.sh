#!/bin/sh
# tools/verify_seed.sh <dir with patch.diff demo.py> : confirm a seeded change in a scratch worktree
# (tests still pass with it; demo fails with it; demo passes without it). Removes the worktree.
D="$(cd "$1" && pwd)"; W=/tmp/vs_$$
git -C /repo worktree add -q --detach $W HEAD || exit 2
cd $W
echo "== demo on clean tree"; AUREL_TREE=$W PYTHONPATH=$W/src /venv/bin/python $D/demo.py >/tmp/vs_$$.log 2>&1; echo "exit=$? (want 0)"; 
git apply $D/patch.diff || { echo "patch does not apply"; git -C /repo worktree remove --force $W; exit 2; }
echo "== demo on changed tree"; AUREL_TREE=$W PYTHONPATH=$W/src /venv/bin/python $D/demo.py >/tmp/vs_$$.log 2>&1; echo "exit=$? (want !=0)"; tail -2 /tmp/vs_$$.log
echo "== tests on changed tree"; PYTHONPATH=$W/src /venv/bin/python -m pytest -q -p no:cacheprovider --timeout=900 -x --deselect tests/test_reading.py::TestETDataReading::test_read_ET_checkpoints_across_restarts --deselect tests/test_reading.py::TestETDataReading::test_read_ET_data_with_checkpoints 2>&1 | tail -1
cd /; git -C /repo worktree remove --force $W; rm -f /tmp/vs_$$.log
