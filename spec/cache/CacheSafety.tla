----------------------------- MODULE CacheSafety -----------------------------
(* The safety core of the AurelCore cache, abstracted to sets (no programs, no  *)
(* numbers): which keys are cached, which have an age entry, which are frozen, *)
(* and which were touched within the last calculation ("recent": such entries  *)
(* are never evicted).  AurelCache.tla refines this specification (checked by   *)
(* TLC on the extracted graph: PROPERTY AbsSafety), and the invariant IndInv    *)
(* below is INDUCTIVE (checked by Apalache with --length=1), so for this        *)
(* abstraction FrozenNeverEvicted and AgeTableSubsetOfCache hold after any      *)
(* number of requests, not only within TLC's bound.                            *)
EXTENDS FiniteSets

CONSTANT
    \* @type: Set(Str);
    AllKeys

VARIABLES
    \* @type: Set(Str);
    data,
    \* @type: Set(Str);
    aged,
    \* @type: Set(Str);
    frozen,
    \* @type: Set(Str);
    recent

\* @type: <<Set(Str), Set(Str), Set(Str), Set(Str)>>;
avars == <<data, aged, frozen, recent>>

AInit == data \in SUBSET AllKeys /\ aged = {} /\ frozen \in {{}, data} /\ recent = {}

(* a read or request of a cached key *)
ATouch == \E k \in data : aged' = aged \cup {k} /\ recent' = recent \cup {k} /\ UNCHANGED <<data, frozen>>
(* a computed value is stored, the calculation count advances, clean-up removes S *)
AStore == \E k \in AllKeys :
              /\ recent' \in SUBSET (recent \cup {k}) /\ k \in recent'
              /\ data' \in SUBSET (data \cup {k})
              /\ LET S == (data \cup {k}) \ data' IN           \* what the clean-up removed
                   /\ S \subseteq (aged \cup {k}) \ (frozen \cup recent')
                   /\ aged' = (aged \cup {k}) \ S
              /\ UNCHANGED frozen
AUserSet == \E k \in AllKeys : data' = data \cup {k} /\ UNCHANGED <<aged, frozen, recent>>
AFreeze  == frozen' = frozen \cup data /\ UNCHANGED <<data, aged, recent>>
(* load_data: a set of entries is assigned, then everything cached is frozen *)
ALoad    == \E S \in SUBSET AllKeys : data' = data \cup S /\ frozen' = frozen \cup data' /\ UNCHANGED <<aged, recent>>
ANext == ATouch \/ AStore \/ AUserSet \/ AFreeze \/ ALoad
ASpec == AInit /\ [][ANext]_avars

TypeOK == data \in SUBSET AllKeys /\ aged \in SUBSET AllKeys /\ frozen \in SUBSET AllKeys /\ recent \in SUBSET AllKeys
FrozenNeverEvicted    == frozen \subseteq data
AgeTableSubsetOfCache == aged \subseteq data
IndInv  == TypeOK /\ FrozenNeverEvicted /\ AgeTableSubsetOfCache /\ recent \subseteq aged
IndInit == IndInv
=============================================================================
