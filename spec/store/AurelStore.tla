----------------------------- MODULE AurelStore -----------------------------
(* Aurel-format store: save_data / read_data (reading.py:155-376), C13.      *)
(*                                                                           *)
(* The disk is a function  iteration -> (<<variable, level>> -> token).      *)
(* A token names WHICH saved dictionary, WHICH column and WHICH position an  *)
(* array came from, so "the array that belongs to iteration i" is decidable. *)
(* Save and Read below are the reference semantics (the property), not a     *)
(* transcription of the code.                                                *)
EXTENDS Integers, Sequences, FiniteSets, TLC, Json

CONSTANTS Dicts,     \* sequence of dictionaries: [it |-> seq of iterations or <<>> (no 'it' column),
                     \*    hasT |-> BOOLEAN, cols |-> [var |-> seq of 0/1 (1 = array, 0 = None entry) or <<>> (None column)]]
          ItSels,    \* set of sequences: values of the it= argument
          VarSels,   \* set of sequences: values of the vars= argument (<<>> = all)
          Levels,    \* set of refinement levels
          Queries,   \* set of [it |-> seq, vars |-> seq, rl |-> level]: reads evaluated after every step
          MaxOps,
          Emit

VARIABLES disk, hist
vars == <<disk, hist>>

Range(s)   == {s[i] : i \in 1 .. Len(s)}
NoneTok    == [d |-> 0, v |-> "", p |-> 0]
Tok(d, v, p) == [d |-> d, v |-> v, p |-> p]

(* sorted(set(it)) *)
RECURSIVE SortSet(_)
SortSet(S) == IF S = {} THEN << >> ELSE LET m == CHOOSE x \in S : \A y \in S : x <= y IN <<m>> \o SortSet(S \ {m})

DVars(d)    == DOMAIN Dicts[d].cols
HasIt(d)    == Dicts[d].it # << >>
NRows(d)    == IF HasIt(d) THEN Len(Dicts[d].it)
               ELSE LET lens == {Len(Dicts[d].cols[v]) : v \in DVars(d)} IN CHOOSE n \in lens : \A m \in lens : n >= m
(* position of the entry that belongs to iteration i when the it= argument is itsel *)
PosOf(d, itsel, i) ==
    IF HasIt(d)
    THEN IF i \in Range(Dicts[d].it) THEN CHOOSE p \in 1 .. Len(Dicts[d].it) : Dicts[d].it[p] = i ELSE 0
    ELSE LET s == SortSet(Range(itsel)) IN CHOOSE p \in 1 .. Len(s) : s[p] = i      \* positional: the only meaning available
(* variables a save call files: the selection (or all), plus 'it' and 't' when the dictionary has them *)
SaveVars(d, varsel) == (IF varsel = << >> THEN DVars(d) ELSE Range(varsel) \cap DVars(d))
                       \cup (IF Dicts[d].hasT THEN {"t"} ELSE {})
HasEntry(d, v, p) == IF v = "t" THEN Dicts[d].hasT /\ p >= 1 /\ p <= NRows(d)     \* the time column has no holes
                     ELSE /\ v \in DVars(d) /\ Dicts[d].cols[v] # << >> /\ p >= 1 /\ p <= Len(Dicts[d].cols[v])
                          /\ Dicts[d].cols[v][p] = 1
(* what one save call files under iteration i *)
Filed(d, itsel, varsel, i) ==
    LET p == PosOf(d, itsel, i) IN
    IF p = 0 THEN {}           \* iteration not in the dictionary: nothing may be filed under it
    ELSE {v \in SaveVars(d, varsel) : HasEntry(d, v, p)}

Init == disk = << >> /\ hist = << >>

(* iterations of a call in the order they are processed, and which of them the dictionary can serve *)
Good(d, itsel)   == {i \in Range(itsel) : PosOf(d, itsel, i) # 0}
RECURSIVE GoodPrefix(_, _, _)
GoodPrefix(d, itsel, s) == IF s = << >> \/ PosOf(d, itsel, Head(s)) = 0 THEN {} ELSE {Head(s)} \cup GoodPrefix(d, itsel, Tail(s))

(* `its` = the iterations this call actually files.  Well-formed call: all of them.  A call that selects an   *)
(* iteration the dictionary does not have may skip it (its = the good ones) or raise when it gets there (its  *)
(* = the good prefix in processing order) or refuse the call up front (its = {}); filing anything under that  *)
(* iteration is what is not allowed.                                                                          *)
SaveApply(d, itsel, varsel, rl, slash, its) ==
    /\ Len(hist) < MaxOps
    /\ LET old(i) == IF i \in DOMAIN disk THEN disk[i] ELSE << >>
           new(i) == LET f == Filed(d, itsel, varsel, i)
                         keys == (DOMAIN old(i)) \cup {<<v, rl>> : v \in f}
                                 \cup (IF HasIt(d) THEN {<<"it", rl>>} ELSE {})
                     IN  [k \in keys |->
                            IF k[2] = rl /\ k[1] \in f THEN Tok(d, k[1], PosOf(d, itsel, i))
                            ELSE IF k[2] = rl /\ k[1] = "it" /\ HasIt(d) THEN Tok(d, "it", PosOf(d, itsel, i))
                            ELSE old(i)[k]]
       IN  disk' = [i \in (DOMAIN disk) \cup its |-> IF i \in its THEN new(i) ELSE disk[i]]
    /\ hist' = Append(hist, [d |-> d, it |-> itsel, vars |-> varsel, rl |-> rl, slash |-> slash])

Save(d, itsel, varsel, rl, slash) ==
    /\ Range(varsel) \subseteq DVars(d) \cup {"it", "t"}
    /\ (~HasIt(d)) => Len(SortSet(Range(itsel))) <= NRows(d)
    /\ \/ SaveApply(d, itsel, varsel, rl, slash, Good(d, itsel))
       \/ /\ Good(d, itsel) # Range(itsel)
          /\ \/ SaveApply(d, itsel, varsel, rl, slash, GoodPrefix(d, itsel, SortSet(Range(itsel))))
             \/ SaveApply(d, itsel, varsel, rl, slash, {})       \* refused before anything is written

Next == \E d \in 1 .. Len(Dicts), itsel \in ItSels, varsel \in VarSels, rl \in Levels, slash \in {FALSE} :
            Save(d, itsel, varsel, rl, slash)
Spec == Init /\ [][Next]_vars

-----------------------------------------------------------------------------
(* Read: reference semantics *)
AllVarsAt(its, rl) == {k[1] : k \in UNION {DOMAIN disk[i] : i \in its \cap DOMAIN disk}} \cap
                      {v \in {k[1] : k \in UNION {DOMAIN disk[i] : i \in its \cap DOMAIN disk}} :
                           \E i \in its \cap DOMAIN disk : <<v, rl>> \in DOMAIN disk[i]}
ReadVars(q) == (IF q.vars = << >> THEN AllVarsAt(Range(q.it), q.rl) \ {"it"} ELSE Range(q.vars)) \cup {"t"}
Cell(i, v, rl) == IF i \in DOMAIN disk /\ <<v, rl>> \in DOMAIN disk[i] THEN disk[i][<<v, rl>>] ELSE NoneTok
ReadResult(q) == LET its == SortSet(Range(q.it))
                 IN  [it |-> its,
                      cols |-> [v \in ReadVars(q) |-> [n \in 1 .. Len(its) |-> Cell(its[n], v, q.rl)]]]

(* properties of the reference semantics itself *)
ColumnsAligned == \A q \in Queries : \A v \in DOMAIN ReadResult(q).cols : Len(ReadResult(q).cols[v]) = Len(ReadResult(q).it)
(* round trip: right after a save, reading what was saved returns exactly the entries that belong to each iteration *)
RoundTrip ==
    hist # << >> =>
        LET op == hist[Len(hist)] IN
        \A i \in Range(op.it) \cap DOMAIN disk : \A v \in Filed(op.d, op.it, op.vars, i) :
            Cell(i, v, op.rl) \in {Tok(op.d, v, PosOf(op.d, op.it, i))} \cup
                (IF Good(op.d, op.it) # Range(op.it) THEN {NoneTok} \cup {Cell(i, v, op.rl)} ELSE {})
(* a save never touches other iterations, other levels, or variables it does not file *)
SaveIsLocal ==
    [][\A i \in DOMAIN disk : \A k \in DOMAIN disk[i] :
          (disk'[i][k] # disk[i][k]) =>
              LET op == hist'[Len(hist')] IN i \in Range(op.it) /\ k[2] = op.rl]_vars
NothingLost == [][\A i \in DOMAIN disk : i \in DOMAIN disk' /\ DOMAIN disk[i] \subseteq DOMAIN disk'[i]]_vars

DiskRecs == {[i |-> i, v |-> k[1], rl |-> k[2], tok |-> disk[i][k]] : i \in DOMAIN disk, k \in UNION {DOMAIN disk[j] : j \in DOMAIN disk}}
DiskSet  == {r \in {[i |-> i, v |-> k[1], rl |-> k[2]] : i \in DOMAIN disk, k \in UNION {DOMAIN disk[j] : j \in DOMAIN disk}} :
                <<r.v, r.rl>> \in DOMAIN disk[r.i]}
EmitState ==
    Emit => PrintT(ToJson([hist |-> hist,
                           files |-> SortSet(DOMAIN disk),
                           disk |-> {[i |-> r.i, v |-> r.v, rl |-> r.rl, tok |-> disk[r.i][<<r.v, r.rl>>]] : r \in DiskSet},
                           reads |-> {[q |-> q, it |-> ReadResult(q).it, cols |-> ReadResult(q).cols] : q \in Queries}]))
=============================================================================
