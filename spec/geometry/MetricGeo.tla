------------------------------ MODULE MetricGeo ------------------------------
(* Driver: the textbook tensors of a list of metrics given by their jets      *)
(* (dimension 2, 3 or 4), one pipeline stage per action so that TLC computes  *)
(* every tensor once and keeps it in the state.  Serves C15 (the symbolic     *)
(* core) and is the self-test of Riemannian.tla.                              *)
EXTENDS Riemannian, TLC, Json

CONSTANTS MonSeq,    \* the monomials in the order the jets are transmitted
          Cases      \* sequence of [n |-> dimension, g |-> sequence (row-major, n*n) of jets, each a sequence of residues]

VARIABLES cs, stage, g, gup, gdet, gamd, gamu, ruddd, rdown, ric, rs
vars == <<cs, stage, g, gup, gdet, gamd, gamu, ruddd, rdown, ric, rs>>

JOf(s)  == [m \in Mons |-> s[CHOOSE k \in 1 .. Len(MonSeq) : MonSeq[k] = m]]
Idx     == 1 .. Cases[cs].n
Pos(a, b) == (a - 1) * Cases[cs].n + b

Init == /\ cs \in 1 .. Len(Cases) /\ stage = 0
        /\ g = [ab \in (1 .. Cases[cs].n) \X (1 .. Cases[cs].n) |-> JOf(Cases[cs].g[(ab[1] - 1) * Cases[cs].n + ab[2]])]
        /\ gup = << >> /\ gdet = << >> /\ gamd = << >> /\ gamu = << >> /\ ruddd = << >> /\ rdown = << >> /\ ric = << >> /\ rs = 0
S1 == /\ stage = 0 /\ stage' = 1
      /\ gdet' = Det(g, Idx)
      /\ gup' = InverseWith(g, Idx, JInv(gdet'))
      /\ UNCHANGED <<cs, g, gamd, gamu, ruddd, rdown, ric, rs>>
S2 == /\ stage = 1 /\ stage' = 2
      /\ gamd' = GammaDown(g, Idx)
      /\ gamu' = GammaUp(gup, gamd', Idx)
      /\ UNCHANGED <<cs, g, gup, gdet, ruddd, rdown, ric, rs>>
S3 == /\ stage = 2 /\ stage' = 3
      /\ ruddd' = RiemannUddd(gamu, Idx)
      /\ rdown' = RiemannDown(ruddd', g, Idx)
      /\ ric' = Ricci(ruddd', Idx)
      /\ rs' = Trace(ric', gup, Idx)
      /\ UNCHANGED <<cs, g, gup, gdet, gamd, gamu>>
Next == S1 \/ S2 \/ S3
Spec == Init /\ [][Next]_vars

Lucky == JVal(Det(g, Idx)) # 0          \* otherwise this prime divides the determinant: case skipped for this prime
OracleSound ==
    (stage = 3 /\ Lucky) =>
        /\ RiemannSymmetries(rdown, Idx)
        /\ InverseIsInverse(g, gup, Idx)
        /\ MetricCompatible(g, gamu, Idx)

Seq2(f) == [k \in 1 .. Cardinality(Idx) * Cardinality(Idx) |->
               f[<<((k - 1) \div Cardinality(Idx)) + 1, ((k - 1) % Cardinality(Idx)) + 1>>]]

Emit ==
    (stage = 3) =>
        LET n == Cardinality(Idx)
            V2(f)   == [k \in 1 .. n * n |-> f[<<((k - 1) \div n) + 1, ((k - 1) % n) + 1>>]]
            V3(f)   == [k \in 1 .. n * n * n |-> f[<<((k - 1) \div (n * n)) + 1, (((k - 1) \div n) % n) + 1, ((k - 1) % n) + 1>>]]
            V4(f)   == [k \in 1 .. n * n * n * n |-> f[<<((k - 1) \div (n * n * n)) + 1, (((k - 1) \div (n * n)) % n) + 1,
                                                         (((k - 1) \div n) % n) + 1, ((k - 1) % n) + 1>>]]
        IN PrintT(ToJson([case |-> cs, P |-> P, lucky |-> Lucky,
                          gdet |-> JVal(gdet),
                          gup |-> V2([ab \in Idx \X Idx |-> JVal(gup[ab])]),
                          Gamma_down |-> V3([abc \in Idx \X Idx \X Idx |-> JVal(gamd[abc])]),
                          Gamma_udd |-> V3([abc \in Idx \X Idx \X Idx |-> JVal(gamu[abc])]),
                          Riemann_uddd |-> V4(ruddd), Riemann_down |-> V4(rdown),
                          Ricci_down |-> V2(ric), RicciS |-> rs,
                          Einstein_down |-> V2(Einstein(ric, rs, g, Idx))]))
=============================================================================
