"""C02, second half: argument objects of over_time / save_data / read_data are left untouched."""
import json
import random


def check_arguments(run, tier, seed):
    from .. import overtime_engine as O
    from .. import store_engine as S
    from . import c14
    # --- over_time: per-step arrays (byte digests) and the vars / estimates lists
    r = O.run_spec(2)
    run.add_tlc(r, "OverTime: behaviours used for the argument checks")
    beh = c14.behaviours(r.printed)
    rng = random.Random(seed)
    rng.shuffle(beh)
    jobs = [(b, {}) for b in beh[: (150 if tier == "quick" else 1500)]] + c14.driver_jobs() + [c14.all_estimators_job()]
    res = O.pmap(O.check_behaviour, jobs)
    n = 0
    for (b, kw), fnds in zip(jobs, res):
        n += 1
        for pid, sig, what, rep in fnds:
            if pid == "C02":
                run.violation(sig, what, rep)
    run.info["over_time_argument_checks"] = n
    # --- save_data / read_data
    rs = S.run_spec(1)
    run.add_tlc(rs, "AurelStore: single saves used for the argument checks")
    jobs2, res2 = S.replay_all(rs.printed)
    m = 0
    for (hist, allowed, _), fnds in zip(jobs2, res2):
        m += 1
        for clause, sig, what, rep in fnds:
            if clause == "ArgsUntouched":
                run.violation(sig, what, rep)
    run.info["save_read_argument_checks"] = m
    run.traces += n + m


def replay(r):
    from .. import overtime_engine as O
    if "state" in r:
        f = [x for x in O.check_behaviour((r["state"], r.get("rel_kwargs", {}))) if x[0] == "C02"]
        for x in f:
            print(x[1], x[2])
        return 1 if f else 0
    return 0
