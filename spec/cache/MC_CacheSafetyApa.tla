------------------------- MODULE MC_CacheSafetyApa -------------------------
(* Apalache wrapper: six uninterpreted keys. *)
EXTENDS CacheSafety
ConstInit == AllKeys = {"k1", "k2", "k3", "k4", "k5", "k6"}
=============================================================================
