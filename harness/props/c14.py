"""C14: over_time equals independent per-step computation, correctly ordered, for any split of the requests."""
import json
import random

from .. import overtime_engine as O
from ..common import Run


def behaviours(printed):
    seen = {}
    for p in printed:
        if "hist" not in p:
            continue
        key = json.dumps([p["hist"], p["init_order"], sorted(p["tkeys"])], sort_keys=True)
        seen.setdefault(key, p)
    return list(seen.values())


def driver_jobs():
    """The driver with AurelCore keyword options: aggressive clean-up while a custom variable computes."""
    states = []
    for order in ([1, 2, 3], [3, 1, 2]):
        states.append({"hist": [{"op": "call", "vars": ["heavy"], "ests": ["max"]}], "init_order": order, "tkeys": ["it", "t"],
                       "cols": [{"kind": "in", "name": c, "of": "", "e": ""} for c in O.IN_SCALARS + O.IN_OTHERS]
                       + [{"kind": "var", "name": "heavy", "of": "", "e": ""}]
                       + [{"kind": "est", "name": c + "_max", "of": c, "e": "max"} for c in O.IN_SCALARS + ["heavy"]],
                       "sorted": True, "admissible": True, "wantV": ["heavy"], "wantE": ["max"]})
    jobs = []
    for kw in ({}, {"clear_cache_every_nbr_calc": 3}, {"clear_cache_every_nbr_calc": 1, "memory_threshold_inGB": 1e-9},
               {"clear_cache_every_nbr_calc": 2, "Lambda": 0.5}):
        jobs += [(s, kw) for s in states]
    return jobs


def all_estimators_job():
    allests = sorted(O.BUILTIN_ESTS)
    return ({"hist": [{"op": "call", "vars": ["gammadet"], "ests": allests}], "init_order": [2, 3, 1], "tkeys": ["it"],
             "cols": [{"kind": "in", "name": c, "of": "", "e": ""} for c in O.IN_SCALARS + O.IN_OTHERS]
             + [{"kind": "var", "name": "gammadet", "of": "", "e": ""}]
             + [{"kind": "est", "name": c + "_" + e, "of": c, "e": e} for c in O.IN_SCALARS + ["gammadet"] for e in allests],
             "sorted": True, "admissible": True, "wantV": ["gammadet"], "wantE": allests}, {})


def custom_kinds_job():
    """A complex-valued custom variable and a custom estimator whose result is a 0-d array."""
    scal = O.IN_SCALARS + ["cpx"]
    return ({"hist": [{"op": "call", "vars": ["cpx"], "ests": ["int0d", "p5"]}], "init_order": [3, 1, 2], "tkeys": ["t"],
             "cols": [{"kind": "in", "name": c, "of": "", "e": ""} for c in O.IN_SCALARS + O.IN_OTHERS]
             + [{"kind": "var", "name": "cpx", "of": "", "e": ""}]
             + [{"kind": "est", "name": c + "_" + e, "of": c, "e": e} for c in scal for e in ("int0d", "p5")],
             "sorted": True, "admissible": True, "wantV": ["cpx"], "wantE": ["int0d", "p5"]}, {})


def run(tier, seed, pid="C14"):
    run = Run(pid, tier, seed)
    r1 = O.run_spec(2)
    if r1.violated:
        raise RuntimeError("OverTime spec violates " + r1.violated)
    run.add_tlc(r1, "OverTime: <=2 steps (calls / shuffles), all (V, E), row orders, temporal keys; SplitInvariant checked")
    beh = behaviours(r1.printed)
    r2 = O.run_spec(4, simulate=(8 if tier == "quick" else 120), seed=seed + 1)
    run.add_tlc(r2, "OverTime: simulated behaviours of 4 steps")
    beh += behaviours(r2.printed)
    # three successive calls on a reduced alphabet (two scalar variables, one custom estimator, one temporal key): every split
    r3 = O.run_spec(3, steps=[1, 2], tensor_vars=[], estimates=["p5"], tkeys='{{"it"}}')
    if r3.violated:
        raise RuntimeError("OverTime spec violates " + r3.violated)
    run.add_tlc(r3, "OverTime: <=3 steps on a reduced alphabet (2 scalar variables, custom estimator only): every split into three calls")
    beh3 = [b for b in behaviours(r3.printed) if len([h for h in b["hist"] if h["op"] == "call"]) == 3]
    rng = random.Random(seed)
    if tier == "quick":
        one = [b for b in beh if len(b["hist"]) == 1]
        more = [b for b in beh if len(b["hist"]) > 1]
        rng.shuffle(one)
        rng.shuffle(more)
        beh = one[:300] + more[:1200]
        rng.shuffle(beh3)
        beh3 = beh3[:400]
    beh += beh3
    jobs = [(b, {}) for b in beh]
    jobs += driver_jobs()
    jobs.append(all_estimators_job())
    jobs.append(custom_kinds_job())
    res = O.pmap(O.check_behaviour, jobs)
    for (b, kw), fnds in zip(jobs, res):
        calls = [h for h in b["hist"] if h["op"] == "call"]
        nontrivial = len(set(b["init_order"])) >= 2 and any(h["vars"] for h in calls)
        run.count((json.dumps(b["hist"]), tuple(b["init_order"]), tuple(sorted(b["tkeys"])), json.dumps(kw)) if nontrivial else None)
        mine = [f for f in fnds if f[0] == pid]
        if not mine:
            run.traces += 1
        for _, sig, what, rep in mine:
            run.violation(sig, what, rep)
    if beh:
        b = beh[len(beh) // 3]
        run.sample({"input_row_order": b["init_order"], "temporal_keys": b["tkeys"], "steps": b["hist"],
                    "expected_columns": sorted(c["name"] for c in b["cols"]), "admissible_split": b["admissible"]})
    run.rule = ("behaviours of OverTime.tla (3 time steps with distinct non-trivial inputs in all row orders; temporal key it / t / both; requests V "
                "over {built-in scalar, custom scalar, built-in tensor}, E over {max, custom estimator}; every split of the requests over successive "
                "calls, with the rows shuffled between calls) replayed on the real over_time; every cell of the final table is compared with a fresh "
                "per-step AurelCore / the estimator re-applied / the input bit-for-bit; columns = the spec's columns; rows sorted. Plus the driver "
                "with aggressive cache settings while a heavy custom variable computes. Non-trivial = >= 2 distinct rows and >= 1 computed column")
    run.assumptions = ["a split is admissible if every estimate is passed in a call made when or after the last scalar column appears",
                       "rows with distinct temporal keys"]
    return run.finish()


def replay(path):
    with open(path) as fh:
        r = json.load(fh)["replay"]
    f = O.check_behaviour((r["state"], r.get("rel_kwargs", {})))
    f = [x for x in f if x[0] == "C14"]
    for x in f:
        print(x[1], x[2])
    return 1 if f else 0
