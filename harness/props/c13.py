"""C13: save_data / read_data round trip in Aurel format."""
import json

from .. import store_engine as S
from ..common import Run


def consume(run, pid, jobs, results):
    n_ok = 0
    for (hist, allowed, _), fnds in zip(jobs, results):
        nontrivial = len(hist) >= 1 and (len(hist) >= 2 or len(set(hist[-1]["it"])) < 3 or hist[-1]["vars"])
        run.count(json.dumps(hist, sort_keys=True) if nontrivial else None)
        mine = [f for f in fnds if (pid == "C13") or f[0] == "ArgsUntouched"]
        if not fnds:
            n_ok += 1
        for clause, sig, what, rep in mine:
            run.violation(sig, what, rep)
    return n_ok


def run(tier, seed):
    run = Run("C13", tier, seed)
    max_ops = 2
    res = S.run_spec(max_ops)
    if res.violated:
        raise RuntimeError("AurelStore violates its own property " + res.violated)
    run.add_tlc(res, f"AurelStore exhaustive, <= {max_ops} saves, 3 read queries after every state")
    records = list(res.printed)
    if tier == "thorough":
        r3 = S.run_spec(4, simulate=400, seed=seed + 1)
        run.add_tlc(r3, "AurelStore simulate 4 saves")

        def wellformed(rec):
            # a simulated behaviour shows only ONE of the outcomes the spec allows for a call that selects a foreign iteration;
            # only behaviours without such calls have a single allowed disk state
            for op in rec["hist"]:
                d = S.DICTS[op["d"] - 1]
                if d["it"] and not set(op["it"]) <= set(d["it"]):
                    return False
            return True
        records += [p for p in r3.printed if isinstance(p, dict) and "hist" in p and wellformed(p)]
    jobs, results = S.replay_all(records)
    run.traces += consume(run, "C13", jobs, results)
    rb = S.run_spec(2, dicts=S.DICTS_B, itsels=S.ITSELS_B, varsels=S.VARSELS_B, queries=S.QUERIES_B)
    if rb.violated:
        raise RuntimeError("AurelStore (family B) violates its own property " + rb.violated)
    run.add_tlc(rb, "AurelStore, second family (numpy columns and 'it', scalar-valued variable), <= 2 saves exhaustive")
    jobs_b, results_b = S.replay_all(list(rb.printed), dicts=S.DICTS_B)
    run.traces += consume(run, "C13", jobs_b, results_b)
    for (hist, allowed, _) in jobs[:: max(1, len(jobs) // 5)][:5]:
        run.sample({"behaviour": S.fmt_hist(hist), "allowed_disk_states": len(allowed),
                    "expected_disk": allowed[0]["disk"][:6], "reads_checked": len(allowed[0]["reads"])})
    run.exhaustive = tier == "quick"
    run.rule = ("every sequence of <= 2 save_data calls (4 dictionaries: sorted / unsorted 'it' column, None entries, None column, no 'it' column; "
                "7 it= selections incl. subsets, unsorted, duplicated and foreign iterations; 3 vars= selections; 2 levels; path with/without "
                "trailing slash) is executed with the real save_data; every dataset of every it_*.hdf5 is decoded back to (dictionary, variable, "
                "position) and compared with the spec's disk; 3 read_data queries after every behaviour; arguments deep-compared. Non-trivial = "
                "2 saves, or a subset/explicit selection")
    run.assumptions = ["a call selecting an iteration the dictionary does not have may skip it or raise; filing anything under it is the violation",
                       "without an 'it' column entries correspond positionally to sorted(set(it))"]
    return run.finish()


def replay(path):
    with open(path) as fh:
        r = json.load(fh)["replay"]
    res = S.run_spec(len(r["hist"]))
    allowed = [p for p in res.printed if json.dumps(p["hist"], sort_keys=True) == json.dumps(r["hist"], sort_keys=True)]
    f = S.replay_group((r["hist"], allowed, S.DICTS))
    for x in f:
        print(x[1], x[2])
    return 1 if f else 0
