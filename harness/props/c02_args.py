"""C02, second half: argument objects of over_time / save_data / read_data are left untouched (filled in with the store / over_time harnesses)."""


def check_arguments(run, tier, seed):
    run.info["argument_checks"] = "see harness/props/c02_args.py"


def replay(r):
    return 0
