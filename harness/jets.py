"""Exact side of the geometry checks: jets with rational coefficients, residues modulo primes, CRT lifting."""
import itertools
from fractions import Fraction
from math import gcd, isqrt

PRIMES = [46337, 46327, 46309, 46307, 46301, 46279, 46273, 46271, 46261, 46237, 46229, 46219]


def mons(nvar=4, deg=2):
    out = [m for m in itertools.product(range(deg + 1), repeat=nvar) if sum(m) <= deg]
    out.sort(key=lambda m: (sum(m), tuple(-x for x in m)))
    return out


MONS = mons()          # fixed order shared with the TLA+ side (sent explicitly as MonSeq)


class Jet:
    """Polynomial of total degree <= 2 in (t, x, y, z) around the probe point, Fraction coefficients."""

    def __init__(self, coeffs=None):
        self.c = {m: Fraction(0) for m in MONS}
        for m, v in (coeffs or {}).items():
            self.c[tuple(m)] = Fraction(v)

    @staticmethod
    def const(v):
        return Jet({(0, 0, 0, 0): v})

    def residues(self, p):
        return [int(self.c[m].numerator % p) * pow(int(self.c[m].denominator % p), p - 2, p) % p for m in MONS]

    def __call__(self, t, x, y, z):
        """Evaluate (floats / numpy arrays); coordinates are offsets from the probe point."""
        tot = 0.0
        for m, v in self.c.items():
            if v != 0:
                tot = tot + float(v) * (t ** m[0]) * (x ** m[1]) * (y ** m[2]) * (z ** m[3])
        return tot

    def d(self, k):
        """Derivative with respect to variable k (0 = t .. 3 = z), still a (lower order) polynomial."""
        out = Jet()
        for m, v in self.c.items():
            if m[k] > 0:
                n = list(m)
                n[k] -= 1
                out.c[tuple(n)] += v * m[k]
        return out

    def __add__(self, o):
        r = Jet()
        for m in MONS:
            r.c[m] = self.c[m] + (o.c[m] if isinstance(o, Jet) else (Fraction(o) if m == (0, 0, 0, 0) else 0))
        return r

    def scale(self, s):
        r = Jet()
        for m in MONS:
            r.c[m] = self.c[m] * Fraction(s)
        return r


def tla_seq(xs):
    return "<<" + ", ".join(str(x) for x in xs) + ">>"


def monseq_tla():
    return "<<" + ", ".join("<<%d, %d, %d, %d>>" % m for m in MONS) + ">>"


# ---------------------------------------------------------------------------
def crt(residues, primes):
    """Combine residues modulo pairwise different primes -> (x mod M, M)."""
    x, M = 0, 1
    for r, p in zip(residues, primes):
        inv = pow(M % p, p - 2, p)
        k = ((r - x) * inv) % p
        x += M * k
        M *= p
    return x % M, M


def rational_reconstruct(a, M):
    """Smallest fraction n/d with n = a d (mod M), |n|, d <= sqrt(M/2); None if there is none."""
    bound = isqrt(M // 2)
    r0, r1 = M, a % M
    s0, s1 = 0, 1
    while r1 > bound:
        q = r0 // r1
        r0, r1 = r1, r0 - q * r1
        s0, s1 = s1, s0 - q * s1
    if s1 == 0 or abs(s1) > bound:
        return None
    n, d = (r1, s1) if s1 > 0 else (-r1, -s1)
    if gcd(abs(n), d) != 1:
        return None
    return Fraction(n, d)


def lift(residue_lists, primes, spare=2):
    """residue_lists[k][i] = i-th value modulo primes[k].  Returns list of Fractions (None where not reconstructible).

    The reconstruction from all primes must agree with the one from all but `spare` primes: a value that only
    fits because the modulus is barely large enough is rejected."""
    n = len(residue_lists[0])
    out = []
    for i in range(n):
        rs = [rl[i] for rl in residue_lists]
        a, M = crt(rs, primes)
        f = rational_reconstruct(a, M)
        if f is not None and len(primes) > spare + 1:
            a2, M2 = crt(rs[:-spare], primes[:-spare])
            f2 = rational_reconstruct(a2, M2)
            if f2 != f:
                f = None
        out.append(f)
    return out


def selftest():
    from random import Random
    rng = Random(1)
    for _ in range(200):
        f = Fraction(rng.randint(-10 ** 9, 10 ** 9), rng.randint(1, 10 ** 9))
        ps = PRIMES[:8]
        rs = [[f.numerator % p * pow(f.denominator % p, p - 2, p) % p] for p in ps]
        assert lift(rs, ps)[0] == f, f
    assert lift([[(-7 * pow(3, p - 2, p)) % p] for p in PRIMES[:4]], PRIMES[:4])[0] == Fraction(-7, 3)
    return True
