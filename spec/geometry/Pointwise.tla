------------------------------ MODULE Pointwise ------------------------------
(* Pointwise tensor algebra (property C08), in exact integer / rational       *)
(* arithmetic.  Four small state spaces, selected by Part:                   *)
(*  "matrix"  every symmetric n x n matrix with entries from a 3-value set:   *)
(*            determinant by the Leibniz formula, adjugate by cofactors       *)
(*            (a complete interpolation grid for det / adj, which are of      *)
(*            degree <= 2 in every entry: agreement on the grid is a proof).  *)
(*  "divide"  the case table of the division helper: operand kinds x values.  *)
(*  "place"   where the 3+1 pieces R_ijkl, R_ijkt, R_titj go in R_abcd.       *)
(*  "metric"  3+1 <-> 4-D metric algebra at one grid point per state.         *)
EXTENDS Integers, Sequences, FiniteSets, Rat, TLC, Json

CONSTANTS Part, N, EntryVals,            \* "matrix"
          Kinds, Vals,                   \* "divide"
          Points                         \* "metric": sequence of [a2 (2 alpha), b (3 ints: 2 beta^i), g (6 ints), k (6 ints)]

VARIABLES st
vars == <<st>>

RECURSIVE SortSetP(_)
SortSetP(S) == IF S = {} THEN << >> ELSE LET m == CHOOSE x \in S : \A y \in S : x <= y IN <<m>> \o SortSetP(S \ {m})
SymPairs(n) == {p \in (1 .. n) \X (1 .. n) : p[1] <= p[2]}
Sym(e, i, j) == IF i <= j THEN e[<<i, j>>] ELSE e[<<j, i>>]

(* ---- integer determinant / adjugate (Leibniz / Laplace) ---- *)
RECURSIVE DetI(_, _, _)
DetI(e, rows, cols) ==
    IF rows = << >> THEN 1
    ELSE LET cs == SortSetP(cols)
             term(k) == (IF k % 2 = 1 THEN 1 ELSE 0 - 1) * Sym(e, Head(rows), cs[k]) * DetI(e, Tail(rows), cols \ {cs[k]})
         IN  LET RECURSIVE S(_)
                 S(k) == IF k = 0 THEN 0 ELSE term(k) + S(k - 1)
             IN  S(Len(cs))
Det(e, n) == DetI(e, [i \in 1 .. n |-> i], 1 .. n)
Adj(e, n) == [ab \in (1 .. n) \X (1 .. n) |->
                 (IF (ab[1] + ab[2]) % 2 = 0 THEN 1 ELSE 0 - 1)
                 * DetI(e, SortSetP((1 .. n) \ {ab[2]}), (1 .. n) \ {ab[1]})]

(* ---- division helper: reference semantics ---- *)
ExpectedDiv(a, b) == IF b = 0 THEN <<0, 1>> ELSE RNorm(a, b)

(* ---- placement of the 3+1 pieces of the Riemann tensor (indices 1 = t, 2..4 = space) ---- *)
(* a component of R_abcd is  sign * piece[indices]  with piece in {"ssss", "ssst", "stst", "zero"}  *)
Place(a, b, c, d) ==
    LET nt == Cardinality({k \in 1 .. 4 : <<a, b, c, d>>[k] = 1})
    IN  IF a = b \/ c = d THEN [piece |-> "zero", sign |-> 0, idx |-> << >>]
        ELSE IF nt = 0 THEN [piece |-> "ssss", sign |-> 1, idx |-> <<a, b, c, d>>]
        ELSE IF nt = 1 THEN
            (IF d = 1 THEN [piece |-> "ssst", sign |-> 1, idx |-> <<a, b, c>>]                \* R_ijkt
             ELSE IF c = 1 THEN [piece |-> "ssst", sign |-> 0 - 1, idx |-> <<a, b, d>>]        \* R_ijtk = -R_ijkt
             ELSE IF b = 1 THEN [piece |-> "ssst", sign |-> 1, idx |-> <<c, d, a>>]            \* R_ktij = R_ijkt
             ELSE [piece |-> "ssst", sign |-> 0 - 1, idx |-> <<c, d, b>>])                     \* R_tkij = -R_ijkt
        ELSE IF nt = 2 THEN
            (IF b = 1 /\ d = 1 THEN [piece |-> "stst", sign |-> 1, idx |-> <<a, c>>]           \* R_itjt
             ELSE IF b = 1 /\ c = 1 THEN [piece |-> "stst", sign |-> 0 - 1, idx |-> <<a, d>>]
             ELSE IF a = 1 /\ c = 1 THEN [piece |-> "stst", sign |-> 1, idx |-> <<b, d>>]
             ELSE IF a = 1 /\ d = 1 THEN [piece |-> "stst", sign |-> 0 - 1, idx |-> <<b, c>>]
             ELSE [piece |-> "zero", sign |-> 0, idx |-> << >>])
        ELSE [piece |-> "zero", sign |-> 0, idx |-> << >>]

(* ---- 3+1 metric algebra at a point, in exact rationals ---- *)
GamE(pt) == [p \in SymPairs(3) |-> pt.g[CASE p = <<1, 1>> -> 1 [] p = <<1, 2>> -> 2 [] p = <<1, 3>> -> 3 [] p = <<2, 2>> -> 4 [] p = <<2, 3>> -> 5 [] p = <<3, 3>> -> 6]]
KE(pt)   == [p \in SymPairs(3) |-> pt.k[CASE p = <<1, 1>> -> 1 [] p = <<1, 2>> -> 2 [] p = <<1, 3>> -> 3 [] p = <<2, 2>> -> 4 [] p = <<2, 3>> -> 5 [] p = <<3, 3>> -> 6]]
Sum3R(F(_)) == RAdd(F(1), RAdd(F(2), F(3)))
MetricOut(pt) ==
    LET ge == GamE(pt)  ke == KE(pt)
        dg == Det(ge, 3)
        ad == Adj(ge, 3)
        gu(i, j)  == RNorm(ad[<<i, j>>], dg)                                   \* gamma^ij
        al == RNorm(pt.a2, 2)
        bu(i) == RNorm(pt.b[i], 2)                                             \* beta^i
        bd(i) == Sum3R(LAMBDA j : RMul(RInt(Sym(ge, i, j)), bu(j)))            \* beta_i
        bb == Sum3R(LAMBDA i : RMul(bd(i), bu(i)))
        gtt == RSub(bb, RMul(al, al))
        ku(i, j) == Sum3R(LAMBDA a : Sum3R(LAMBDA b : RMul(RMul(gu(i, a), gu(j, b)), RInt(Sym(ke, a, b)))))
        ktr == Sum3R(LAMBDA i : Sum3R(LAMBDA j : RMul(gu(i, j), RInt(Sym(ke, i, j)))))
        adn(i, j) == RSub(RInt(Sym(ke, i, j)), RMul(RNorm(1, 3), RMul(RInt(Sym(ge, i, j)), ktr)))
        (* a spatial tensor as a spacetime tensor (s_to_st): K_00 = beta^i beta^j K_ij, K_0k = beta^i K_ik, K_ij *)
        k4(a, b) == IF a = 0 /\ b = 0 THEN Sum3R(LAMBDA i : Sum3R(LAMBDA j : RMul(RMul(bu(i), bu(j)), RInt(Sym(ke, i, j)))))
                    ELSE IF a = 0 THEN Sum3R(LAMBDA i : RMul(bu(i), RInt(Sym(ke, i, b))))
                    ELSE IF b = 0 THEN Sum3R(LAMBDA i : RMul(bu(i), RInt(Sym(ke, i, a))))
                    ELSE RInt(Sym(ke, a, b))
        nu(a) == IF a = 0 THEN RInv(al) ELSE RNeg(RDiv(bu(a), al))
    IN  [gammadet |-> RInt(dg), gammaup3 |-> [k \in 1 .. 9 |-> gu(((k - 1) \div 3) + 1, ((k - 1) % 3) + 1)],
         betadown3 |-> <<bd(1), bd(2), bd(3)>>, betamag |-> bb, gtt |-> gtt,
         gdet |-> RNeg(RMul(RMul(al, al), RInt(dg))),
         nup4 |-> <<RInv(al), RNeg(RDiv(bu(1), al)), RNeg(RDiv(bu(2), al)), RNeg(RDiv(bu(3), al))>>,
         Ktrace |-> ktr, Kup3 |-> [k \in 1 .. 9 |-> ku(((k - 1) \div 3) + 1, ((k - 1) % 3) + 1)],
         Adown3 |-> [k \in 1 .. 9 |-> adn(((k - 1) \div 3) + 1, ((k - 1) % 3) + 1)],
         Kdown4 |-> [k \in 1 .. 16 |-> k4((k - 1) \div 4, (k - 1) % 4)],
         K4n |-> [a \in 1 .. 4 |-> RAdd(RMul(k4(a - 1, 0), nu(0)), Sum3R(LAMBDA i : RMul(k4(a - 1, i), nu(i))))],
         Atrace |-> Sum3R(LAMBDA i : Sum3R(LAMBDA j : RMul(gu(i, j), adn(i, j)))),
         nn |-> RAdd(RMul(gtt, RMul(RInv(al), RInv(al))),
                     RAdd(RMul(RInt(0 - 2), Sum3R(LAMBDA i : RMul(bd(i), RMul(RInv(al), RDiv(bu(i), al))))),
                          Sum3R(LAMBDA i : Sum3R(LAMBDA j : RMul(RInt(Sym(ge, i, j)), RMul(RDiv(bu(i), al), RDiv(bu(j), al)))))))]

-----------------------------------------------------------------------------
Init ==
    CASE Part = "matrix" -> st \in [SymPairs(N) -> EntryVals]
      [] Part = "divide" -> st \in [ka : Kinds, kb : Kinds, a : Vals, b : Vals]
      [] Part = "place"  -> st \in (1 .. 4) \X (1 .. 4) \X (1 .. 4) \X (1 .. 4)
      [] Part = "metric" -> st \in 1 .. Len(Points)
Next == UNCHANGED st
Spec == Init /\ [][Next]_vars

(* facts about the specification itself *)
AdjugateIdentity ==      \* adj(g) g = det(g) 1
    Part = "matrix" =>
        \A i, j \in 1 .. N :
            LET RECURSIVE S(_)
                S(k) == IF k = 0 THEN 0 ELSE Adj(st, N)[<<i, k>>] * Sym(st, k, j) + S(k - 1)
            IN  S(N) = (IF i = j THEN Det(st, N) ELSE 0)
AdjugateSymmetric == Part = "matrix" => \A i, j \in 1 .. N : Adj(st, N)[<<i, j>>] = Adj(st, N)[<<j, i>>]
(* the placement reproduces the Riemann symmetries when the pieces have theirs (evaluated on concrete integer pieces) *)
P4(i, j, k, l) == (i - j) * (k - l) * ((i + j) * (k + l) + 1)          \* antisymmetric in ij and kl, symmetric under ij <-> kl
P3(i, j, k)    == (i - j) * (k + 1 + i * j)                              \* antisymmetric in ij
P2(i, j)       == i * j + i + j                                          \* symmetric
RVal(a, b, c, d) == LET p == Place(a, b, c, d) IN
                    CASE p.piece = "zero" -> 0
                      [] p.piece = "ssss" -> p.sign * P4(p.idx[1], p.idx[2], p.idx[3], p.idx[4])
                      [] p.piece = "ssst" -> p.sign * P3(p.idx[1], p.idx[2], p.idx[3])
                      [] p.piece = "stst" -> p.sign * P2(p.idx[1], p.idx[2])
PlacementHasRiemannSymmetries ==
    Part = "place" =>
        LET a == st[1] b == st[2] c == st[3] d == st[4] IN
        /\ RVal(a, b, c, d) = 0 - RVal(b, a, c, d)
        /\ RVal(a, b, c, d) = 0 - RVal(a, b, d, c)
        /\ RVal(a, b, c, d) = RVal(c, d, a, b)
DivisionNeverSingular == Part = "divide" => IsRat(ExpectedDiv(st.a, st.b))
MetricIdentities ==
    Part = "metric" =>
        LET o == MetricOut(Points[st]) IN
        /\ o.gdet = RNeg(RMul(RMul(RNorm(Points[st].a2, 2), RNorm(Points[st].a2, 2)), o.gammadet))
        /\ o.Atrace = RZero                       \* the trace-free part is trace-free
        /\ o.nn = RInt(0 - 1)                     \* the unit normal is unit timelike
        /\ \A a \in 1 .. 4 : o.K4n[a] = RZero     \* a spatial tensor written as a spacetime tensor is orthogonal to the normal

Emit ==
    CASE Part = "matrix" -> PrintT(ToJson([e |-> [k \in 1 .. N * N |-> Sym(st, ((k - 1) \div N) + 1, ((k - 1) % N) + 1)],
                                           det |-> Det(st, N), adj |-> [k \in 1 .. N * N |-> Adj(st, N)[<<((k - 1) \div N) + 1, ((k - 1) % N) + 1>>]]]))
      [] Part = "divide" -> PrintT(ToJson([q |-> st, expected |-> ExpectedDiv(st.a, st.b)]))
      [] Part = "place"  -> PrintT(ToJson([abcd |-> st, place |-> Place(st[1], st[2], st[3], st[4])]))
      [] Part = "metric" -> PrintT(ToJson([pt |-> st, out |-> MetricOut(Points[st])]))
=============================================================================
