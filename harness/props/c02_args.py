"""C02, second half: argument objects of over_time / save_data / read_data are left untouched."""
import json
import random


def check_arguments(run, tier, seed):
    from .. import overtime_engine as O
    from .. import store_engine as S
    from . import c14
    # --- over_time: per-step arrays (byte digests) and the vars / estimates lists
    r = O.run_spec(2)
    run.add_tlc(r, "OverTime: behaviours used for the argument checks")
    beh = c14.behaviours(r.printed)
    rng = random.Random(seed)
    rng.shuffle(beh)
    jobs = [(b, {}) for b in beh[: (150 if tier == "quick" else 1500)]] + c14.driver_jobs() + [c14.all_estimators_job()]
    res = O.pmap(O.check_behaviour, jobs)
    n = 0
    for (b, kw), fnds in zip(jobs, res):
        n += 1
        for pid, sig, what, rep in fnds:
            if pid == "C02":
                run.violation(sig, what, rep)
    run.info["over_time_argument_checks"] = n
    # --- save_data / read_data
    rs = S.run_spec(1)
    run.add_tlc(rs, "AurelStore: single saves used for the argument checks")
    jobs2, res2 = S.replay_all(rs.printed)
    m = 0
    for (hist, allowed, _), fnds in zip(jobs2, res2):
        m += 1
        for clause, sig, what, rep in fnds:
            if clause == "ArgsUntouched":
                run.violation(sig, what, rep)
    run.info["save_read_argument_checks"] = m
    # --- read_data on Einstein Toolkit output: every argument shape the reader accepts, including the time coordinate and a
    # tensor named next to its components; only the caller's objects are examined here (C11 / C12 decide the returned data)
    k = et_arguments(run)
    run.info["et_read_argument_checks"] = k
    run.traces += n + m + k


def et_arguments(run):
    import copy
    import shutil
    import tempfile
    import numpy as np
    from .. import et_engine as E
    from .. import gen_et as G
    import aurel.reading as R
    n = 0
    for li, layout in enumerate(E.LAYOUTS):
        tmp = tempfile.mkdtemp(prefix="vargs_")
        try:
            M = (3, 4, 3)
            G.make_sim(tmp + "/", "sim", [{"lo": 0, "hi": 8, "every": 4}, {"lo": 8, "hi": 16, "every": 4}], M=M, ghost=1,
                       chunks=E.TWO_CHUNKS[1](M), layout=layout, nlev=2)
            param = E.sim_param(tmp, "sim")
            for vars_arg in (["alpha", "t"], ["alpha", "t", "betaup3"], ["betaup3", "betax"], [], ["betay"]):
                for it_arg in ([8, 4], np.array([0, 4, 8, 12]), [4.0]):
                    for split in (True, False):
                        for extra in ({}, {"rl": 1}, {"restart": 0}):
                            if "restart" in extra and max(it_arg) > 8:
                                continue
                            kw = dict(it=it_arg, vars=vars_arg, split_per_it=split, verbose=False, skip_last=False, **extra)
                            snap = copy.deepcopy(kw)
                            psnap = copy.deepcopy(param)
                            try:
                                R.read_data(param, **kw)
                            except Exception:
                                pass
                            n += 1
                            same = all((np.array_equal(kw[a], snap[a]) and type(kw[a]) is type(snap[a])) for a in snap)
                            if not same or param != psnap:
                                changed = [a for a in snap if not (np.array_equal(kw[a], snap[a]) and type(kw[a]) is type(snap[a]))]
                                if param != psnap:
                                    changed.append("param")
                                run.violation({"clause": "ArgsUntouched", "call": "read_data (Einstein Toolkit output)", "arg": changed[0]},
                                              f"read_data(it={snap['it']!r}, vars={snap['vars']!r}, split_per_it={split}, {extra}) on a "
                                              f"{'-'.join(layout)} simulation modified its caller's argument(s) {changed}: "
                                              f"{ {a: (snap[a], kw[a]) for a in changed if a != 'param'} }", {"layout": layout, "vars": snap["vars"]})
                                kw.update(copy.deepcopy(snap))
                                param.clear()
                                param.update(psnap)
        finally:
            shutil.rmtree(tmp, ignore_errors=True)
    return n


def replay(r):
    from .. import overtime_engine as O
    if "state" in r:
        f = [x for x in O.check_behaviour((r["state"], r.get("rel_kwargs", {}))) if x[0] == "C02"]
        for x in f:
            print(x[1], x[2])
        return 1 if f else 0
    return 0
