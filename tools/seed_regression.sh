#!/bin/sh
# tools/seed_regression.sh [names...] : run every kept seeded change (default: all of /verif/seeded) against the quick check that is
# recorded as detecting it (scratch worktree + VERIF_REPO; /repo untouched) and print one line per seed: detected / MISSED / NOAPPLY.
cd "$(dirname "$0")/.."
names="$@"; [ -z "$names" ] && names=$(ls seeded)
for n in $names; do
  d=seeded/$n
  prop=$(python3 -c "import json;m=json.load(open('$d/meta.json'));import re;by=m.get('detected_by','');mm=re.match(r'(C\d\d) quick',by);print(mm.group(1) if mm else m['property'])")
  out=$(tools/try_seed.sh $d $prop 2>&1)
  if echo "$out" | grep -q "patch does not apply\|patch failed"; then echo "$n $prop NOAPPLY";
  elif echo "$out" | grep -q "^VIOLATION"; then echo "$n $prop detected";
  elif echo "$out" | grep -q "MACHINERY"; then echo "$n $prop MACHINERY";
  else echo "$n $prop MISSED"; fi
done
