"""spec/cache/Cleanup.tla -> the real AurelCore.cleanup_cache().

TLC enumerates every situation a clean-up can start from (which entries are cached, aged how long ago, frozen or not,
which memory threshold, regular clean-up due or not) for a handful of real Python objects whose byte counts are the
constants of the model, checks the C03 clauses in every state of every call, and prints every terminal state; each of
them is executed on a real instance: the same dictionary, the same age table (in the same insertion order), the same
importances and settings, one call of cleanup_cache(), then the dictionary, the age table, the order in which entries
were deleted and the objects that stayed are compared with the model's prediction.
"""
import sys
import time

import numpy as np

from . import fields, tlc

NGRID = 4
SCALAR_B = NGRID ** 3 * 8


def make_objects(variant):
    """name -> (python object, importance * 4).  Sizes differ in kind: owning arrays (two of the same size: ties), a view
    (deep = its bytes, shallow = a header), a list of arrays (shallow = the list header), a Python float."""
    big = np.arange(3 * 3 * NGRID ** 3, dtype=float).reshape(3, 3, NGRID, NGRID, NGRID)
    objs = {
        "a_scal": (np.full((NGRID,) * 3, 1.5), 4),
        "b_scal": (np.full((NGRID,) * 3, 2.5), 4),
        "view_of_tensor": (big[0], 2),                                # importance 0.5
        "lst": ([np.zeros((NGRID,) * 3) for _ in range(3)], 8),        # importance 2
        "flt": (3.25, 4000),                                          # importance 1000 on a few bytes
        "tensor": (np.zeros((3, 3, NGRID, NGRID, NGRID)), 1),          # importance 0.25
    }
    names = {0: ["a_scal", "b_scal", "view_of_tensor", "lst"],
             1: ["a_scal", "b_scal", "tensor", "flt"],
             2: ["tensor", "lst", "view_of_tensor", "flt", "a_scal"],
             3: ["b_scal", "a_scal", "lst", "tensor", "view_of_tensor"]}[variant]
    return {k: objs[k] for k in names}, names


def deep(v):
    """The documented meaning of get_size, written independently of aurel.utils.memory."""
    if isinstance(v, np.ndarray):
        return int(v.nbytes)
    if isinstance(v, (list, tuple)):
        return sum(deep(x) for x in v)
    return sys.getsizeof(v)


def thresholds(objs):
    tot = sum(sys.getsizeof(k) + deep(v) for k, (v, _) in objs.items())
    sh = sum(sys.getsizeof(v) for v, _ in objs.values())
    one = min(sys.getsizeof(k) + deep(v) for k, (v, _) in objs.items())
    return sorted({0, one, sh // 2, sh, tot // 2, tot - 1, tot, 2 ** 30})


def fn(names, f):
    return "[k \\in Keys |-> CASE " + " [] ".join(f'k = "{n}" -> {f(n)}' for n in names) + "]"


def run_model(variant, order, sinces, ces, counts, emit=True, liveness=False, timeout=1800):
    objs, names = make_objects(variant)
    order = [names[i] for i in order]
    defs = {
        "Keys": tlc.tla_set([tlc.tla_str(n) for n in names]),
        "Order": tlc.tla_seq([tlc.tla_str(n) for n in order]),
        "KeyB": fn(names, lambda n: sys.getsizeof(n)),
        "Deep": fn(names, lambda n: deep(objs[n][0])),
        "Shallow": fn(names, lambda n: sys.getsizeof(objs[n][0])),
        "Imp4": fn(names, lambda n: objs[n][1]),
        "Sinces": tlc.tla_set([str(s) if s >= 0 else f"(0 - {-s})" for s in sinces]),
        "Thresholds": tlc.tla_set([str(t) for t in thresholds(objs)]),
        "ClearEverys": tlc.tla_set([str(c) for c in ces]),
        "Counts": tlc.tla_set([str(c) for c in counts]),
    }
    name, text, cfg_consts = tlc.wrapper("Cleanup", defs)
    invs = ["TypeOK", "FrozenNeverEvicted", "RecentNeverEvicted", "UnagedNeverEvicted", "AgeTableSubsetOfCache", "RemovedTogether",
            "WithinSafetyLayer", "OnlyWhenDue", "StrainRuleExact", "LoopLargestFirst", "ReturnsSmallEnough", "Bounded"]
    if emit:
        invs.append("EmitDone")
    cfg = (f"SPECIFICATION {'FairSpec' if liveness else 'Spec'}\nCONSTANTS\n{cfg_consts}\n  ScalarB = {SCALAR_B}\n  Emit = {'TRUE' if emit else 'FALSE'}\n"
           + "".join(f"INVARIANT {i}\n" for i in invs) + "PROPERTY LoopOnlyOverThreshold\n" + ("PROPERTY Terminates\n" if liveness else ""))
    res = tlc.run_tlc(name, cfg, ["cache"], extra_files={name + ".tla": text}, coverage=not emit, timeout=timeout)
    return res, objs, order


class LogDict(dict):
    """A dict that remembers the order of its deletions (the linearisation points of a clean-up)."""

    def __init__(self, *a, log=None, tag=""):
        super().__init__(*a)
        self.log, self.tag = log, tag

    def __delitem__(self, k):
        super().__delitem__(k)
        self.log.append((self.tag, k))


_REL = None


def instance():
    global _REL
    if _REL is None:
        import aurel.core as core
        _REL = core.AurelCore(fields.make_fd(N=NGRID), verbose=False)
    return _REL


def replay_state(st, objs, order):
    """Execute one terminal state of the model on the real function.  Returns a list of (clause, message)."""
    rel = instance()
    since = st["since"]
    log = []
    cached = [k for k in objs if since[k] != -2]
    # the dictionary is filled in an order unrelated to the age table
    rel.data = LogDict({k: objs[k][0] for k in sorted(cached)}, log=log, tag="data")
    rel.calculation_count = st["count"]
    rel.last_accessed = LogDict({k: st["count"] - since[k] for k in order if since[k] >= 0}, log=log, tag="age")
    ages0 = dict(rel.last_accessed)
    rel.var_importance = {k: (0 if k in st["frozen"] else objs[k][1] / 4.0) for k in objs}
    rel.clear_cache_every_nbr_calc = st["ce"]
    rel.memory_threshold_inGB = st["thr"] / 2.0 ** 30
    out = []
    t0 = time.time()
    try:
        rel.cleanup_cache()
    except Exception as ex:   # noqa: BLE001
        return [("CleanupNeverRaises", f"cleanup_cache raised {type(ex).__name__}: {ex}")]
    if time.time() - t0 > 20:
        out.append(("CleanupTerminates", "one cleanup_cache call took more than 20 s on five small entries"))
    frozen_cached = [k for k in st["frozen"] if k in cached]
    for k in frozen_cached:
        if k not in rel.data:
            out.append(("FrozenNeverEvicted", f"frozen entry {k!r} was removed"))
    if not set(rel.last_accessed) <= set(rel.data):
        out.append(("AgeTableSubsetOfCache", f"last_accessed keeps {sorted(set(rel.last_accessed) - set(rel.data))} which are no longer cached"))
    for k in cached:
        if since[k] in (-1, 0, 1) and k not in rel.data:
            out.append(("RecentNeverEvicted", f"entry {k!r} (since={since[k]}) was removed"))
    if set(rel.data) != set(st["data"]) or set(rel.last_accessed) != set(st["aged"]):
        out.append(("PolicyAsSpecified", f"cached after the call {sorted(rel.data)} / aged {sorted(rel.last_accessed)}; "
                                         f"the model predicts {sorted(st['data'])} / {sorted(st['aged'])}"))
    else:
        dels = [k for tag, k in log if tag == "data"]
        adels = [k for tag, k in log if tag == "age"]
        if dels != list(st["removed"]) or adels != list(st["removed"]):
            out.append(("RemovalOrder", f"deleted from data in the order {dels}, from last_accessed {adels}; the model predicts {list(st['removed'])}"))
    for k in rel.data:
        if rel.data[k] is not objs[k][0]:
            out.append(("FrozenNeverAltered" if k in st["frozen"] else "SurvivorsUntouched", f"entry {k!r} is another object after the clean-up"))
    for k, v in rel.last_accessed.items():
        if v != ages0[k]:
            out.append(("SurvivorsUntouched", f"age of {k!r} changed from {ages0[k]} to {v}"))
    if rel.calculation_count != st["count"]:
        out.append(("SurvivorsUntouched", "calculation_count changed"))
    return out
