-------------------------------- MODULE ETSim --------------------------------
(* What an Einstein Toolkit simulation directory contains, and what reading   *)
(* it must return (property C11, restart / iteration / request part; the      *)
(* environment of C12 and C18).                                               *)
(*                                                                            *)
(* A simulation is a sequence of restarts.  Restart r wrote, for every level, *)
(* the iterations that are multiples of its output stride within lo..hi; a    *)
(* later restart may start before the previous one ended (resumed from an     *)
(* earlier checkpoint): the later restart is then authoritative.              *)
EXTENDS Integers, Sequences, FiniteSets, TLC, Json

CONSTANTS Starts, Lengths, Strides,   \* a restart covers lo .. lo + len*stride with the given stride
          MaxRestarts,
          Layouts,                    \* subset of {"onefile","proc"} \X {"ungrouped","grouped"}
          NLevels,                    \* set of level counts, e.g. {1, 2}
          Requests,                   \* set of [it |-> seq, vars |-> seq, rl |-> n, restart |-> -1 or n]
          Emit

VARIABLES restarts, layout, nlev
vars == <<restarts, layout, nlev>>

Range(s) == {s[i] : i \in 1 .. Len(s)}
RECURSIVE SortSet(_)
SortSet(S) == IF S = {} THEN << >> ELSE LET m == CHOOSE x \in S : \A y \in S : x <= y IN <<m>> \o SortSet(S \ {m})

Its(r, rl) == {i \in restarts[r].lo .. restarts[r].hi : i % (restarts[r].every * (IF rl = 0 THEN 1 ELSE 1)) = 0}
AllIts(rl) == UNION {Its(r, rl) : r \in 1 .. Len(restarts)}
(* the restart that is authoritative for iteration i: the latest one that wrote it *)
Serving(i, rl) == CHOOSE r \in 1 .. Len(restarts) : i \in Its(r, rl) /\ \A q \in 1 .. Len(restarts) : i \in Its(q, rl) => q <= r

Init == /\ layout \in Layouts /\ nlev \in NLevels
        /\ \E lo \in Starts, n \in Lengths, e \in Strides :
              lo % e = 0 /\ restarts = <<[lo |-> lo, hi |-> lo + n * e, every |-> e]>>
(* a new restart begins at or before the end of the previous one (never before its beginning) and ends anywhere *)
RunRestart == /\ Len(restarts) < MaxRestarts
              /\ \E lo \in Starts, n \in Lengths, e \in Strides :
                    LET prev == restarts[Len(restarts)] IN
                    \* the new restart may stop before the previous one did (a short re-run from an earlier checkpoint): its
                    \* range then lies inside the previous one's, which still serves the iterations after it
                    /\ lo % e = 0 /\ lo >= prev.lo /\ lo <= prev.hi + e
                    /\ restarts' = Append(restarts, [lo |-> lo, hi |-> lo + n * e, every |-> e])
              /\ UNCHANGED <<layout, nlev>>
Next == RunRestart
Spec == Init /\ [][Next]_vars

-----------------------------------------------------------------------------
(* reference semantics of a read request *)
Admissible(q) == /\ q.rl < nlev
                 /\ (q.restart = 0 - 1 => Range(q.it) \subseteq AllIts(q.rl))
                 /\ (q.restart >= 0 => q.restart < Len(restarts) /\ Range(q.it) \subseteq Its(q.restart + 1, q.rl))
ReadResult(q) == LET its == SortSet(Range(q.it))
                 IN  [it |-> its,
                      from |-> [n \in 1 .. Len(its) |-> IF q.restart >= 0 THEN q.restart ELSE Serving(its[n], q.rl) - 1]]

LatestWins == \A rl \in 0 .. nlev - 1 : \A i \in AllIts(rl) : \A q \in 1 .. Len(restarts) : i \in Its(q, rl) => q <= Serving(i, rl)
Overlapping == \E r \in 1 .. Len(restarts) - 1 : restarts[r + 1].lo <= restarts[r].hi

EmitSim ==
    Emit => PrintT(ToJson([restarts |-> restarts, layout |-> layout, nlev |-> nlev, overlapping |-> Overlapping,
                           reads |-> {[q |-> q, res |-> ReadResult(q)] : q \in {x \in Requests : Admissible(x)}}]))
=============================================================================
