-------------------------------- MODULE Grid --------------------------------
(* The grid object of aurel.finitedifference.FiniteDifference (property C16) *)
(* One axis of the grid in exact rational arithmetic.  The three axes are    *)
(* independent; the harness combines three different states per real object. *)
EXTENDS Integers, Sequences, FiniteSets, Rat, TLC, Json

CONSTANTS Mins,       \* set of rationals <<num, den>>
          Spacings,   \* set of positive rationals
          NMin, NMax, \* number of points
          Orders,     \* requested fd orders; a value outside {2,4,6,8} selects the default 4th-order schemes
          Emit

VARIABLES n, mn, d, p
vars == <<n, mn, d, p>>

Coord(i)  == RAdd(mn, RMul(RInt(i), d))          \* the i-th grid point
Max       == Coord(n - 1)
EffOrder  == IF p \in {2, 4, 6, 8} THEN p ELSE 4  \* the schemes actually installed
MaskLen   == EffOrder \div 2                     \* their half width
Cut1(len) == len - 2 * MaskLen                    \* points left after trimming once
Cut2(len) == len - 4 * MaskLen                    \* ... twice
RAbs(a)   == <<Abs(a[1]), a[2]>>
AbsSeq    == [i \in 1 .. n |-> RAbs(Coord(i - 1))]
Closest   == LET a == AbsSeq IN {i \in 0 .. n - 1 : \A j \in 0 .. n - 1 : ~RLess(a[j + 1], a[i + 1])}
Center    == CHOOSE i \in Closest : \A j \in Closest : i <= j     \* numpy argmin: first minimum

Init == /\ n = NMin /\ mn \in Mins /\ d \in Spacings /\ p \in Orders
Next == /\ n < NMax /\ n' = n + 1 /\ UNCHANGED <<mn, d, p>>   \* enumeration step (the object itself is immutable)
Spec == Init /\ [][Next]_vars

-----------------------------------------------------------------------------
(* facts about the specification itself *)
ExactlyNPoints   == Cardinality({Coord(i) : i \in 0 .. n - 1}) = n
Increasing       == \A i \in 0 .. n - 2 : RLess(Coord(i), Coord(i + 1))
Extent           == RSub(Max, mn) = RMul(RInt(n - 1), d)
MaxIsLastPoint   == /\ \A i \in 0 .. n - 1 : ~RLess(Max, Coord(i))
                    /\ RLess(Max, RAdd(mn, RMul(RInt(n), d)))          \* and strictly inside min + N d
CenterIsClosest  == \A j \in 0 .. n - 1 : ~RLess(RAbs(Coord(j)), RAbs(Coord(Center)))
CutsConsistent   == /\ Cut2(n) = Cut1(Cut1(n))
                    /\ (n >= 3 * MaskLen => Cut1(n) >= MaskLen)

EmitGrid == Emit => PrintT(ToJson([n |-> n, mn |-> mn, d |-> d, p |-> p, max |-> Max,
                                   closest |-> Closest, center |-> Center,
                                   cut1 |-> Cut1(n), cut2 |-> Cut2(n), mask |-> MaskLen, eff |-> EffOrder]))
=============================================================================
