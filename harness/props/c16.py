"""C16: the grid object describes exactly the grid the parameters specify.

spec/grid/Grid.tla is one axis of the grid in exact rationals; TLC checks the
facts (exactly N points, extent, last point, closest-to-zero index, trimming
lengths) on the spec and enumerates every (N, min, spacing, order).  Each
enumerated state is compared with the attributes of a real FiniteDifference
object (three different states are combined into one 3-D object, each state
being used once on every axis) and with the consumers that mix fd.N* with
param['N*'].
"""
import itertools
import json
from fractions import Fraction

import numpy as np

from ..common import Run
from ..tlc import run_tlc, wrapper

MINS = [(0, 1), (-1, 2), (-3, 10), (1, 3), (-7, 10), (-21, 20), (-2, 1)]
SPACINGS = [(1, 10), (3, 10), (1, 3), (7, 10), (1, 20), (11, 10), (1, 4), (1, 1), (1, 7)]

CFG = """SPECIFICATION Spec
CONSTANTS
{consts}
  NMin = {nmin}
  NMax = {nmax}
  Orders = {{2,4,6,8,3,10}}
  Emit = TRUE
INVARIANT ExactlyNPoints
INVARIANT Increasing
INVARIANT Extent
INVARIANT MaxIsLastPoint
INVARIANT CenterIsClosest
INVARIANT CutsConsistent
INVARIANT EmitGrid
"""


def fr(x):
    return Fraction(x[0], x[1])


BOUNDARIES = ("no boundary", "periodic", "symmetric")


def check_object(run, fdmod, coremod, states, boundary="no boundary"):
    """states: three spec states (dicts) -> one FiniteDifference object (axes x,y,z).  The grid the object describes is the one the
    parameters specify whatever the boundary treatment of the derivative operators."""
    p = states[0]["p"]
    names = "xyz"
    param = {}
    for ax, st in zip(names, states):
        param["N" + ax] = st["n"]
        param[ax + "min"] = float(fr(st["mn"]))
        param["d" + ax] = float(fr(st["d"]))
    if (states[0]["n"] + states[1]["n"]) % 2 == 0:
        # dictionaries returned by aurel.parameters() also carry the domain bounds of the parameter file, which are not the last
        # grid points (e.g. a periodic box): the object must report the grid it builds
        for ax, st in zip(names, states):
            param[ax + "max"] = float(fr(st["mn"])) + st["n"] * float(fr(st["d"]))
    ctx = {"param": dict(param), "fd_order": p, "boundary": boundary}

    def vio(clause, axis, st, what, extra=None):
        sig = {"clause": clause, "axis": axis}
        if boundary != "no boundary":
            sig["boundary"] = boundary
            what = f"[boundary={boundary!r}] " + what
        rep = dict(ctx)
        rep.update({"axis": axis, "state": st})
        rep.update(extra or {})
        run.violation(sig, what, rep)

    try:
        fd = fdmod.FiniteDifference(dict(param), boundary=boundary, fd_order=p, verbose=False)
    except Exception as ex:
        run.violation({"clause": "Constructs", "exc": type(ex).__name__, "boundary": boundary},
                      f"FiniteDifference(param) raised {type(ex).__name__}: {ex}", ctx)
        return 0
    ok = True
    shape = tuple(st["n"] for st in states)
    for ax, st in zip(names, states):
        arr = getattr(fd, ax + "array")
        n, mn, d = st["n"], fr(st["mn"]), fr(st["d"])
        if len(arr) != n:
            ok = False
            vio("ExactlyNPoints", ax, st,
                f"{ax}array has {len(arr)} points for N{ax}={n}, {ax}min={float(mn)!r}, d{ax}={float(d)!r}",
                {"got_len": int(len(arr))})
            continue
        exact = np.array([float(mn + i * d) for i in range(n)])
        scale = max(abs(float(mn)), abs(float(mn + n * d)), 1e-300)
        if np.abs(arr - exact).max() > 8 * np.finfo(float).eps * scale:
            ok = False
            i = int(np.argmax(np.abs(arr - exact)))
            vio("PointsAtMinPlusIDx", ax, st, f"{ax}array[{i}] = {arr[i]!r}, min + i*spacing = {exact[i]!r}")
        if getattr(fd, "N" + ax) != n:
            ok = False
            vio("SizeAttribute", ax, st, f"fd.N{ax} = {getattr(fd, 'N' + ax)} but the parameters say {n}")
        mx = getattr(fd, ax + "max")
        if abs(mx - float(fr(st["max"]))) > 8 * np.finfo(float).eps * scale:
            ok = False
            vio("MaxIsLastPoint", ax, st, f"fd.{ax}max = {mx!r}, last grid point is {float(fr(st['max']))!r}")
        ic = int(getattr(fd, f"i{ax}center"))
        # float ties: accept any index whose exact |coord| is within 4 ulp of the minimum
        amin = min(abs(mn + i * d) for i in range(n))
        if not (0 <= ic < n) or abs(abs(mn + ic * d) - amin) > 8 * np.finfo(float).eps * scale:
            ok = False
            vio("CenterIsClosest", ax, st, f"fd.i{ax}center = {ic}, closest-to-zero indices are {sorted(st['closest'])}")
        if getattr(fd, ax + "min") != param[ax + "min"]:
            ok = False
            vio("MinAttribute", ax, st, f"fd.{ax}min = {getattr(fd, ax + 'min')!r}")
    if fd.fd_order != states[0]["eff"]:
        ok = False
        vio("EffectiveOrder", "-", states[0], f"fd_order requested {p}: the object reports fd_order = {fd.fd_order}, the schemes installed are of order {states[0]['eff']}")
    if fd.mask_len != states[0]["mask"]:
        ok = False
        vio("MaskLen", "-", states[0], f"mask_len = {fd.mask_len}, stencil half width is {states[0]['mask']}")
    # derived arrays have the data shape
    derived = {"x": fd.x, "y": fd.y, "z": fd.z, "r": fd.r, "theta": fd.theta, "phi": fd.phi}
    for name, a in derived.items():
        if a.shape != shape:
            ok = False
            vio("DerivedArrayShape", name, states[0], f"fd.{name}.shape = {a.shape}, data shape is {shape}")
    for name in ("cartesian_coords", "spherical_coords"):
        a = getattr(fd, name)
        if a.shape != (3,) + shape:
            ok = False
            vio("DerivedArrayShape", name, states[0], f"fd.{name}.shape = {a.shape}, expected {(3,) + shape}")
    if ok:
        # coordinates content
        X, Y, Z = np.meshgrid(fd.xarray, fd.yarray, fd.zarray, indexing="ij")
        if not (np.array_equal(fd.x, X) and np.array_equal(fd.y, Y) and np.array_equal(fd.z, Z)
                and np.array_equal(fd.cartesian_coords, np.array([X, Y, Z]))):
            ok = False
            vio("CartesianCoords", "-", states[0], "x, y, z / cartesian_coords are not the (x, y, z)-indexed mesh of the axis arrays")
        # Cartesian <-> spherical round trip (harness-side clause)
        r, th, ph = fd.cartesian_to_spherical(fd.x, fd.y, fd.z)
        # spherical -> Cartesian is the textbook map for ANY azimuth (extraction spheres are sampled with phi in [0, 2 pi))
        thm, phm = np.meshgrid(np.pi * np.array([0.1, 0.37, 0.5, 0.82]), 2 * np.pi * np.array([0.03, 0.3, 0.55, 0.8, 0.97]), indexing="ij")
        for rad in (0.7, np.full(thm.shape, 1.3)):
            xs, ys, zs = fd.spherical_to_cartesian(rad, thm, phm)
            ref = (rad * np.sin(thm) * np.cos(phm), rad * np.sin(thm) * np.sin(phm), rad * np.cos(thm))
            errs = max(np.abs(np.asarray(a) - b).max() for a, b in zip((xs, ys, zs), ref))
            if not errs <= 1e-12:
                ok = False
                vio("SphericalToCartesianIsTheTextbookMap", "-", states[0], f"spherical_to_cartesian(r, theta, phi) differs from (r sin cos, r sin sin, r cos) "
                    f"by {errs!r} for azimuths in [0, 2 pi)")
                break
        x2, y2, z2 = fd.spherical_to_cartesian(r, th, ph)
        sc = max(np.abs(fd.cartesian_coords).max(), 1.0)
        err = max(np.abs(x2 - fd.x).max(), np.abs(y2 - fd.y).max(), np.abs(z2 - fd.z).max())
        if not np.isfinite(err) or err > 1e-12 * sc:
            ok = False
            vio("SphericalRoundTrip", "-", states[0], f"spherical_to_cartesian(cartesian_to_spherical(x,y,z)) differs from (x,y,z) by {err!r}")
        if not (np.array_equal(fd.r, r) and np.array_equal(fd.theta, th) and np.array_equal(fd.phi, ph)):
            ok = False
            vio("SphericalCoords", "-", states[0], "fd.r/theta/phi are not cartesian_to_spherical(x, y, z)")
        if not np.allclose(r, np.sqrt(X * X + Y * Y + Z * Z), rtol=1e-15, atol=0) or (th < 0).any() or (th > np.pi).any() \
                or (ph < -np.pi).any() or (ph > np.pi).any():
            ok = False
            vio("SphericalRanges", "-", states[0], "r, theta, phi out of range / r is not the Euclidean radius")
    # trimming helpers: exactly the half-width(s) per side, on 1-, 2-, 3-D arrays
    m = states[0]["mask"]
    for fn, k, cutkey in (("cutoffmask", 1, "cut1"), ("cutoffmask2", 2, "cut2")):
        for dims in ((0,), (1,), (2,), (0, 1), (1, 2), (0, 2), (0, 1, 2)):
            shp = tuple(shape[i] for i in dims)
            if any(s - 2 * k * m < 1 for s in shp):
                continue
            f = np.arange(int(np.prod(shp)), dtype=float).reshape(shp)
            exp = f[tuple(slice(k * m, s - k * m) for s in shp)]
            try:
                got = getattr(fd, fn)(f)
            except Exception as ex:
                got = None
            if got is None or got.shape != exp.shape or not np.array_equal(got, exp):
                ok = False
                vio("TrimExactlyHalfWidth", fn, states[0],
                    f"{fn} on shape {shp} (order {p}) returned shape {None if got is None else got.shape}, "
                    f"expected {exp.shape} = interior with {k}x{m} points removed per side", {"dims": dims})
            want = tuple(states[i][cutkey] for i in dims)
            assert exp.shape == want, (exp.shape, want)
    # consumers that mix fd.N* with param['N*']
    try:
        if max(shape) > 30:
            raise StopIteration        # the consumers are exercised on the smaller grids; large ones would only cost time
        rel = coremod.AurelCore(fd, verbose=False)
        if tuple(rel.data_shape) != shape or rel.data_shape != fd.x.shape:
            ok = False
            vio("ConsumerShapes", "AurelCore.data_shape", states[0],
                f"AurelCore.data_shape = {rel.data_shape}, fd.x.shape = {fd.x.shape}, parameters say {shape}")
        else:
            a = rel["alpha"]
            if a.shape != shape:
                ok = False
                vio("ConsumerShapes", "alpha", states[0], f"default alpha has shape {a.shape}")
            if min(shape) >= 3 * p // 2:
                # coordinates enter tetrad_base / null_ray_exp through fd.x, fd.y, fd.z: shapes must agree with data
                try:
                    e = rel.tetrad_base()
                    if any(np.shape(v) != (4,) + shape for v in e):
                        ok = False
                        vio("ConsumerShapes", "tetrad_base", states[0], "tetrad_base() vectors do not have the data shape")
                except ValueError as ex:
                    ok = False
                    vio("ConsumerShapes", "tetrad_base", states[0], f"tetrad_base() raised {ex}")
    except StopIteration:
        pass
    except Exception as ex:
        ok = False
        vio("ConsumerShapes", "AurelCore", states[0], f"AurelCore(fd) raised {type(ex).__name__}: {ex}")
    return 1 if ok else 0


def run(tier, seed):
    run = Run("C16", tier, seed)
    import aurel.finitedifference as fdmod
    import aurel.core as coremod
    nmin, nmax = (3, 26) if tier == "quick" else (3, 56)
    name, text, consts = wrapper("Grid", {
        "Mins": "{" + ", ".join(f"<<{a},{b}>>" for a, b in MINS) + "}",
        "Spacings": "{" + ", ".join(f"<<{a},{b}>>" for a, b in SPACINGS) + "}"})
    cfg = CFG.format(consts=consts, nmin=nmin, nmax=nmax)
    res = run_tlc(name, cfg, ["grid", "exact"], extra_files={name + ".tla": text}, timeout=3000)
    if res.violated:
        raise RuntimeError(f"Grid spec violates its own invariant {res.violated}")
    run.add_tlc(res, f"Grid exhaustive N={nmin}..{nmax}")
    if len(res.printed) != res.distinct:
        raise RuntimeError(f"TLC emitted {len(res.printed)} records for {res.distinct} states")
    by_p = {}
    for st in res.printed:
        by_p.setdefault(st["p"], []).append(st)
    rng = np.random.default_rng(seed)
    for p, sts in sorted(by_p.items()):
        sts.sort(key=lambda s: (s["n"], s["mn"], s["d"]))
        k = len(sts)
        # every state appears once on each axis: axis y and z are rotations of the list by co-prime offsets
        o1, o2 = k // 3 + 1, 2 * k // 3 + 5
        for i in range(k):
            trip = [sts[i], sts[(i + o1) % k], sts[(i + o2) % k]]
            good = check_object(run, fdmod, coremod, trip)
            # the other boundary treatments in turn
            good = check_object(run, fdmod, coremod, trip, BOUNDARIES[1 + i % 2]) and good
            run.traces += good
            for st in trip:
                d = fr(st["d"])
                dyadic = d.denominator & (d.denominator - 1) == 0
                run.count((st["n"], st["mn"], st["d"], p) if not dyadic else None)
            if i % 997 == 0:
                run.sample({"spec_states_xyz": [{k2: trip[j][k2] for k2 in ("n", "mn", "d", "max", "center", "cut1", "cut2")} for j in range(3)],
                            "fd_order": p, "all_attributes_equal": bool(good)})
    run.exhaustive = True
    run.rule = ("TLC enumerates every (N in %d..%d, min in %d rationals, spacing in %d rationals, order); each state is used once on each axis of a real "
                "FiniteDifference object; non-trivial = spacing not dyadic (its multiples are not exactly representable); distinct by (N, min, d, order)"
                % (nmin, nmax, len(MINS), len(SPACINGS)))
    run.assumptions = ["coordinates compared within 8 ulp of the exact rational value",
                       "the Cartesian<->spherical round trip and consumer shapes are evaluated by the harness on the spec-enumerated grids (not TLC-checked facts)"]
    return run.finish()


def replay(path):
    import aurel.finitedifference as fdmod
    with open(path) as fh:
        r = json.load(fh)["replay"]
    fd = fdmod.FiniteDifference(r["param"], fd_order=r["fd_order"], verbose=False)
    print({a: len(getattr(fd, a + "array")) for a in "xyz"}, r["param"])
    ok = all(len(getattr(fd, a + "array")) == r["param"]["N" + a] for a in "xyz")
    return 0 if ok else 1
