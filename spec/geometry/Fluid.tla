-------------------------------- MODULE Fluid --------------------------------
(* Perfect fluid on a 3+1 background at one point (property C09), in exact     *)
(* arithmetic modulo P.  Inputs: lapse, shift, spatial metric, Eulerian        *)
(* velocity v^i, rest-mass density, specific internal energy, pressure.       *)
(* Everything is expressed with W^2 = 1 / (1 - v_i v^i) (rational) so that no  *)
(* square root is needed: u^mu = W U^mu with U^mu = n^mu + v^mu.               *)
(* Textbook definitions:                                                     *)
(*   T_mu_nu = rho0 h u_mu u_nu + p g_mu_nu,   h = 1 + eps + p / rho0         *)
(*   E = T(n, n), S_i = -gamma_i^mu T_mu_nu n^nu, S_ij = T_ij                 *)
(* and the closed forms E = rho0 h W^2 - p, S_i = rho0 h W^2 v_i,             *)
(* S_ij = rho0 h W^2 v_i v_j + p gamma_ij are CHECKED by TLC on every state.  *)
EXTENDS Fp, Sequences, FiniteSets, TLC, Json

CONSTANTS Cases   \* sequence of [al, be (3), gam (6: xx xy xz yy yz zz), v (3), r0, ep, pr] residues

VARIABLES cs,   \* index of the point
          pt    \* the point itself (kept in the state: TLC re-evaluates the substituted constant Cases at every reference)
vars == <<cs, pt>>
C == pt
Init == cs \in 1 .. Len(Cases) /\ pt = Cases[cs]
Next == UNCHANGED <<cs, pt>>
Spec == Init /\ [][Next]_vars

Sp == {1, 2, 3}
SymPos(i, j) == LET a == IF i <= j THEN i ELSE j  b == IF i <= j THEN j ELSE i
                IN  CASE a = 1 /\ b = 1 -> 1 [] a = 1 /\ b = 2 -> 2 [] a = 1 /\ b = 3 -> 3
                      [] a = 2 /\ b = 2 -> 4 [] a = 2 /\ b = 3 -> 5 [] a = 3 /\ b = 3 -> 6
G(i, j)  == C.gam[SymPos(i, j)]
S3(f)    == Ad(f[1], Ad(f[2], f[3]))
S4(f)    == Ad(f[0], Ad(f[1], Ad(f[2], f[3])))
(* inverse of the 3x3 metric by cofactors *)
Cof(i, j) == LET r == Sp \ {i}  c == Sp \ {j}
                 r1 == CHOOSE x \in r : \A y \in r : x <= y   r2 == CHOOSE x \in r : x # r1
                 c1 == CHOOSE x \in c : \A y \in c : x <= y   c2 == CHOOSE x \in c : x # c1
                 m  == Sb(Mu(G(r1, c1), G(r2, c2)), Mu(G(r1, c2), G(r2, c1)))
             IN  IF (i + j) % 2 = 0 THEN m ELSE Ng(m)
DetG     == Ad(Ad(Mu(G(1, 1), Cof(1, 1)), Mu(G(1, 2), Cof(1, 2))), Mu(G(1, 3), Cof(1, 3)))
GU(i, j) == Dv(Cof(j, i), DetG)
Al   == C.al
BeU(i) == C.be[i]
BeD(i) == S3([j \in Sp |-> Mu(G(i, j), BeU(j))])
VU(i)  == C.v[i]
VD(i)  == S3([j \in Sp |-> Mu(G(i, j), VU(j))])
V2     == S3([i \in Sp |-> Mu(VD(i), VU(i))])
W2     == Inv(Sb(1, V2))                                     \* Lorentz factor squared
(* 4-D objects, index 0 = t *)
G4(a, b) == IF a = 0 /\ b = 0 THEN Sb(S3([k \in Sp |-> Mu(BeD(k), BeU(k))]), Mu(Al, Al))
            ELSE IF a = 0 THEN BeD(b) ELSE IF b = 0 THEN BeD(a) ELSE G(a, b)
NU(a)  == IF a = 0 THEN Inv(Al) ELSE Ng(Dv(BeU(a), Al))     \* n^mu
UU(a)  == IF a = 0 THEN NU(0) ELSE Ad(NU(a), VU(a))          \* U^mu = n^mu + v^mu  (u^mu = W U^mu)
UD(a)  == S4([b \in 0 .. 3 |-> Mu(G4(a, b), UU(b))])         \* U_mu
Rho0 == C.r0
Eps  == C.ep
Pr   == C.pr
Rho  == Mu(Rho0, Ad(1, Eps))
Enth == Ad(Ad(1, Eps), Dv(Pr, Rho0))
RhoH == Ad(Rho, Pr)                                           \* rho + p  (= rho0 h where there are baryons; a radiation region has rho0 = 0, p # 0)
T(a, b)  == Ad(Mu(Mu(RhoH, W2), Mu(UD(a), UD(b))), Mu(Pr, G4(a, b)))
HD(a, b) == Ad(G4(a, b), Mu(W2, Mu(UD(a), UD(b))))            \* h_mu_nu = g + u u
En     == S4([a \in 0 .. 3 |-> S4([b \in 0 .. 3 |-> Mu(T(a, b), Mu(NU(a), NU(b)))])])
FluxD(i) == Ng(S4([b \in 0 .. 3 |-> Mu(T(i, b), NU(b))]))    \* S_i = - T_i_nu n^nu   (i spatial: gamma_i^mu = delta_i^mu)
FluxU(i) == S3([j \in Sp |-> Mu(GU(i, j), FluxD(j))])
StressD(i, j) == T(i, j)
StressU(i, j) == S3([a \in Sp |-> S3([b \in Sp |-> Mu(Mu(GU(i, a), GU(j, b)), T(a, b))])])
StressTr == S3([i \in Sp |-> S3([j \in Sp |-> Mu(GU(i, j), T(i, j))])])
G4U(a, b) == IF a = 0 /\ b = 0 THEN Ng(Inv(Mu(Al, Al)))
             ELSE IF a = 0 THEN Dv(BeU(b), Mu(Al, Al)) ELSE IF b = 0 THEN Dv(BeU(a), Mu(Al, Al))
             ELSE Sb(GU(a, b), Dv(Mu(BeU(a), BeU(b)), Mu(Al, Al)))
TTrace == S4([a \in 0 .. 3 |-> S4([b \in 0 .. 3 |-> Mu(G4U(a, b), T(a, b))])])

Lucky == DetG # 0 /\ Al # 0 /\ Sb(1, V2) # 0
(* closed forms, checked on every state *)
ClosedForms ==
    Lucky =>
        /\ S4([a \in 0 .. 3 |-> Mu(UU(a), UD(a))]) = Ng(Sb(1, V2))           \* U.U = -(1 - v^2), i.e. u.u = -1
        /\ (Rho0 # 0 => Mu(Rho0, Enth) = RhoH)                                \* rho0 h = rho + p wherever h is defined
        /\ En = Sb(Mu(RhoH, W2), Pr)                                          \* E = rho0 h W^2 - p
        /\ \A i \in Sp : FluxD(i) = Mu(Mu(RhoH, W2), VD(i))                   \* S_i = rho0 h W^2 v_i
        /\ \A i, j \in Sp : T(i, j) = Ad(Mu(Mu(RhoH, W2), Mu(VD(i), VD(j))), Mu(Pr, G(i, j)))
        /\ TTrace = Sb(Mu(3, Pr), Rho)                                        \* T = 3p - rho
        /\ TTrace = Sb(StressTr, En)                                          \* = S - E
        /\ \A a \in 0 .. 3 : S4([b \in 0 .. 3 |-> Mu(HD(a, b), UU(b))]) = 0   \* h_mu_nu u^nu = 0

V16(F(_, _)) == [k \in 1 .. 16 |-> F((k - 1) \div 4, (k - 1) % 4)]
V9(F(_, _))  == [k \in 1 .. 9 |-> F(((k - 1) \div 3) + 1, ((k - 1) % 3) + 1)]
Emit == PrintT(ToJson([case |-> cs, P |-> P, lucky |-> Lucky,
                       W2 |-> W2, Uup |-> <<UU(0), UU(1), UU(2), UU(3)>>, Udown |-> <<UD(0), UD(1), UD(2), UD(3)>>,
                       Tdown4 |-> V16(T), hdown4 |-> V16(HD), Ttrace |-> TTrace,
                       rho_n |-> En, fluxdown3_n |-> <<FluxD(1), FluxD(2), FluxD(3)>>, fluxup3_n |-> <<FluxU(1), FluxU(2), FluxU(3)>>,
                       Stressdown3_n |-> V9(StressD), Stressup3_n |-> V9(StressU), Stresstrace_n |-> StressTr,
                       press_n |-> Mu(Inv(3), StressTr), rho |-> Rho, enthalpy |-> Enth,
                       gammadet |-> DetG]))
=============================================================================
