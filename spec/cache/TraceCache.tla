----------------------------- MODULE TraceCache -----------------------------
(* Trace validation: executions of the real AurelCore, recorded by           *)
(* harness/recorder.py, are checked event by event against AurelCache.       *)
(* Each event names the action and carries its arguments; the state of the   *)
(* model is bound to the logged fields (what was evicted from the cache and  *)
(* from the age table, the calculation count, the sizes of both tables).     *)
(* Property clauses are the named invariants / action properties of          *)
(* AurelCache evaluated on every step of the trace; everything else (the     *)
(* program followed by each function body) is a conformance clause: a trace  *)
(* that stops matching is reported with the position reached.                *)
EXTENDS AurelCache, IOUtils, TLCExt

TraceLog == JsonDeserialize(IOEnv.TRACE_FILE)     \* sequence of traces; a trace is a sequence of events

VARIABLES tid, l
tvars == <<vars, tid, l>>

Ev      == TraceLog[tid][l]
ToSet(s) == {s[i] : i \in 1 .. Len(s)}
IsEvent(e) == l <= Len(TraceLog[tid]) /\ Ev.ev = e /\ l' = l + 1 /\ tid' = tid

TrInit == /\ tid \in 1 .. Len(TraceLog) /\ l = 1 /\ Init

TrHit0   == IsEvent("hit")   /\ Ev.depth = 0 /\ stack = << >> /\ Ev.key \in data      \* also for keys the user defined himself
            /\ age' = Touch(age, Ev.key, count) /\ handed' = handed \cup {obj[Ev.key]}
            /\ nreq' = nreq + 1 /\ hist' = hist /\ status' = "ok"
            /\ UNCHANGED <<data, count, frozen, stack, obj, dirty, nset>>
TrSet    == IsEvent("set") /\ stack = << >> /\ UserSet(Ev.key)
TrEnter0 == IsEvent("enter") /\ Ev.depth = 0 /\ stack = << >> /\ Ev.key \notin data /\ Request(Ev.key)
TrHit    == IsEvent("hit")   /\ Ev.depth > 0 /\ Len(stack) = Ev.depth
            /\ Node(Top).op = "r" /\ Node(Top).key = Ev.key /\ Ev.key \in data /\ StepRead
TrEnter  == IsEvent("enter") /\ Ev.depth > 0 /\ Len(stack) = Ev.depth
            /\ Node(Top).op = "r" /\ Node(Top).key = Ev.key /\ Ev.key \notin data /\ StepRead
TrTest   == IsEvent("test")  /\ Len(stack) = Ev.depth
            /\ Node(Top).op = "t" /\ Node(Top).key = Ev.key /\ (Ev.key \in data) = Ev.out /\ StepTest
TrDread  == IsEvent("dread") /\ Len(stack) = Ev.depth
            /\ Node(Top).op = "d" /\ Node(Top).key = Ev.key /\ StepDirect
TrExit   == IsEvent("exit")  /\ Len(stack) = Ev.depth + 1 /\ Top.key = Ev.key /\ Top.key \notin Helpers
            /\ ReturnWith(ToSet(Ev.evicted), ToSet(Ev.aged_removed))
            /\ count' = Ev.count
            /\ Cardinality(data') = Ev.ndata /\ Cardinality(DOMAIN age') = Ev.naged
TrExitH  == IsEvent("exit")  /\ Len(stack) = Ev.depth + 1 /\ Top.key = Ev.key /\ Top.key \in Helpers
            /\ ReturnHelper
(* an exception unwinds everything; every frame on the way logs one raise event *)
TrRaise  == IsEvent("raise") /\ stack' = << >> /\ status' = Ev.exc
            /\ UNCHANGED <<data, age, count, frozen, nreq, hist, obj, dirty, handed, nset>>
TrFreeze == IsEvent("freeze") /\ stack = << >>
            /\ frozen' = frozen \cup data /\ ToSet(Ev.frozen) = data
            /\ UNCHANGED <<data, age, count, stack, nreq, hist, obj, dirty, handed, status, nset>>

(* the item interface asked for a method that takes arguments: nothing changes (sizes of both tables are logged) *)
TrGetFunc == IsEvent("getfunc") /\ Cardinality(data) = Ev.ndata /\ Cardinality(DOMAIN age) = Ev.naged
             /\ UNCHANGED vars
TrNext == TrGetFunc \/ TrSet \/ TrHit0 \/ TrEnter0 \/ TrHit \/ TrEnter \/ TrTest \/ TrDread \/ TrExit \/ TrExitH \/ TrRaise \/ TrFreeze
TrSpec == TrInit /\ [][TrNext]_tvars

(* progress registers: 100 + tid holds the furthest position matched for trace tid *)
RegInit  == \A t \in 1 .. Len(TraceLog) : TLCSet(100 + t, 1)
Progress == IF TLCGet(100 + tid) < l THEN TLCSet(100 + tid, l) ELSE TRUE
Accepted ==
    LET bad == {t \in 1 .. Len(TraceLog) : TLCGet(100 + t) # Len(TraceLog[t]) + 1}
    IN  /\ PrintT(ToJson([verdict |-> "trace-validation", ntraces |-> Len(TraceLog),
                          rejected |-> [t \in bad |-> TLCGet(100 + t)]]))
        /\ TRUE
=============================================================================
