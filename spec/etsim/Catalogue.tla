------------------------------ MODULE Catalogue ------------------------------
(* iterations() / read_iterations() / get_content()  (reading.py:774-1518), C18 *)
(*                                                                            *)
(* Environment: a simulation directory that grows by whole restarts           *)
(* (RunRestart).  Catalogue state: which restarts have a record in            *)
(* iterations.txt (append-only text file) and which have a content.txt.       *)
(* Reference semantics: every record equals Scan(restart) - what is on disk - *)
(* so any interleaving of calls and new restarts ends in the catalogue one    *)
(* fresh scan returns; the file parses back to what was returned.             *)
EXTENDS Integers, Sequences, FiniteSets, TLC, Json

CONSTANTS Shapes,        \* set of restart shapes [len0, every0, every1, chk]: iterations of level 0 = multiples of every0 ..., chk = checkpoints
          MaxRestarts, MaxCalls,
          Names, Layouts, Emit,
          NLevels,       \* set of level counts (levels >= 1 share the stride every1; more than 10 levels make " rl=1" a prefix of " rl=10")
          VarSets        \* VarSets[(k % Len) + 1] = variables of thorns unknown to aurel that restart k wrote besides lapse and shift

VARIABLES restarts,   \* sequence of [lo, hi, every0, every1, chk]  (restart number = index - 1)
          recorded,   \* sequence of restart numbers with a record in iterations.txt, in file order
          hasContent, \* set of restart numbers with a content.txt
          fileExists, \* iterations.txt exists (it is created, possibly empty, by the first call - also when that call raises)
          hist,       \* calls and environment steps so far
          name, layout, nlev
vars == <<restarts, recorded, hasContent, fileExists, hist, name, layout, nlev>>

Range(s) == {s[i] : i \in 1 .. Len(s)}
Its(r, rl) == LET x == restarts[r + 1] e == IF rl = 0 THEN x.every0 ELSE x.every1
              IN  {i \in x.lo .. x.hi : i % e = 0}
Existing == 0 .. Len(restarts) - 1
Min(S) == CHOOSE x \in S : \A y \in S : x <= y
Max(S) == CHOOSE x \in S : \A y \in S : x >= y
(* what is on disk for restart r *)
(* levels that were written: 0 .. nlev-1, except that nlev = 3 stands for output of levels 0 and 2 only (a gap) *)
Levels    == IF nlev = 3 THEN {0, 2} ELSE 0 .. nlev - 1
AnyIts(r) == UNION {Its(r, l) : l \in Levels}
Scan(r) == [its |-> <<Min(AnyIts(r)), Max(AnyIts(r))>>,
            vars |-> {"alpha", "betaup3"} \cup VarSets[(r % Len(VarSets)) + 1],
            rl  |-> [l \in Levels |->
                       IF Cardinality(Its(r, l)) = 1 THEN <<Min(Its(r, l))>>
                       ELSE <<Min(Its(r, l)), Max(Its(r, l)), IF l = 0 THEN restarts[r + 1].every0 ELSE restarts[r + 1].every1>>],
            chk |-> restarts[r + 1].chk]

Init == /\ name \in Names /\ layout \in Layouts /\ nlev \in NLevels
        /\ \E s \in Shapes : restarts = <<[lo |-> 0, hi |-> (s.len0 + 1) * s.every0 - 1, every0 |-> s.every0, every1 |-> s.every1, chk |-> s.chk]>>
        /\ recorded = << >> /\ hasContent = {} /\ hist = << >> /\ fileExists = FALSE

RunRestart ==
    /\ Len(restarts) < MaxRestarts /\ Len(hist) < MaxCalls
    /\ \E s \in Shapes, rerun \in BOOLEAN :
          LET prev == restarts[Len(restarts)]
              \* the run continues where the previous restart stopped (no iteration is lost), or is resumed from the
              \* checkpoint the previous restart itself started from (the two restarts then overlap)
              lo   == IF rerun THEN prev.lo ELSE prev.hi + 1
          IN  restarts' = Append(restarts, [lo |-> lo, hi |-> lo + (s.len0 + 1) * s.every0 - 1, every0 |-> s.every0, every1 |-> s.every1,
                                            chk |-> {lo + c : c \in s.chk}])
    /\ hist' = Append(hist, [op |-> "run"])
    /\ UNCHANGED <<recorded, hasContent, fileExists, name, layout, nlev>>

ToProcess(skip) == LET all == IF skip THEN Existing \ {Len(restarts) - 1} ELSE Existing
                   IN  all \ Range(recorded)
RECURSIVE SortSet(_)
SortSet(S) == IF S = {} THEN << >> ELSE LET m == Min(S) IN <<m>> \o SortSet(S \ {m})

Iterations(skip) ==
    /\ Len(hist) < MaxCalls
    /\ recorded' = recorded \o SortSet(ToProcess(skip))
    /\ hasContent' = hasContent \cup ToProcess(skip)           \* iterations() calls get_content for every restart it processes
    /\ hist' = Append(hist, [op |-> "iterations", skip |-> skip,
                             raises |-> (ToProcess(skip) = {} /\ recorded = << >>)])
    /\ fileExists' = TRUE
    /\ UNCHANGED <<restarts, name, layout, nlev>>
ReadIterations ==
    /\ Len(hist) < MaxCalls
    /\ fileExists' = TRUE
    /\ IF ~fileExists
       THEN /\ recorded' = SortSet(ToProcess(TRUE)) /\ hasContent' = hasContent \cup ToProcess(TRUE)   \* no file yet: behaves as iterations()
            /\ hist' = Append(hist, [op |-> "read_iterations", raises |-> (ToProcess(TRUE) = {})])
       ELSE /\ UNCHANGED <<recorded, hasContent>>
            /\ hist' = Append(hist, [op |-> "read_iterations", raises |-> FALSE])
    /\ UNCHANGED <<restarts, name, layout, nlev>>
GetContent(r, ow) ==
    /\ Len(hist) < MaxCalls /\ r \in Existing
    /\ hasContent' = hasContent \cup {r}
    /\ hist' = Append(hist, [op |-> "get_content", restart |-> r, overwrite |-> ow])
    /\ UNCHANGED <<restarts, recorded, fileExists, name, layout, nlev>>

Next == RunRestart \/ (\E s \in BOOLEAN : Iterations(s)) \/ ReadIterations \/ (\E r \in 0 .. MaxRestarts - 1, ow \in BOOLEAN : GetContent(r, ow))
Spec == Init /\ [][Next]_vars

-----------------------------------------------------------------------------
RecordsAppendOnly == [][Len(recorded') >= Len(recorded) /\ SubSeq(recorded', 1, Len(recorded)) = recorded]_vars
NoDuplicateRecords == Cardinality(Range(recorded)) = Len(recorded)
RecordsExist == Range(recorded) \subseteq Existing
(* after cataloguing everything, the catalogue is what one fresh scan returns, whatever happened before *)
IncrementalEqualsFresh == (ToProcess(FALSE) = {}) => Range(recorded) = Existing

EmitState == (Emit /\ hist # << >>) =>
    PrintT(ToJson([hist |-> hist, name |-> name, layout |-> layout, nlev |-> nlev,
                   restarts |-> restarts,
                   recorded |-> recorded,
                   scan |-> [k \in 1 .. Len(restarts) |-> Scan(k - 1)],
                   levels |-> Levels,
                   allits |-> [l \in Levels |-> UNION {Its(r, l) : r \in Range(recorded)}]]))
=============================================================================
