"""C17: the analytic solution modules are consistent with Einstein's equations (8 of the 10 modules, at expansion
points with rational jets - see harness/solutions.py for what is and is not covered)."""
import json

import numpy as np

from .. import geo_engine as GE
from .. import geo_replay as GR
from .. import jets as J
from .. import solutions as S
from .. import spacetime as ST
from ..common import Run

FIELDS = ["Kdown3", "kappaT", "Kretschmann", "st_RicciS", "gdown4", "Ktrace", "div_u"]
TOL = 2e-9


def oracle_for(cases):
    primes = J.PRIMES[:12]
    defs = {p: {"MonSeq": J.monseq_tla(), "Cases": ST.cases_tla(cases, p)} for p in primes}
    res = GE.run_mod_primes("ThreePlusOne", defs, ["OracleSoundCore", "Emit"], primes=primes)
    for r in res:
        if r["violated"]:
            raise RuntimeError(f"ThreePlusOne oracle violates {r['violated']} modulo {r['p']}:\n{r['tail']}")
    oracle, unlucky = GE.lift_records(res, FIELDS)
    return oracle, res, unlucky


def taylor(case, dt, X, p0):
    """The degree-2 Taylor polynomials of (alpha, beta, gamma) at offsets from the expansion point."""
    off = (dt, X[0] - p0[1], X[1] - p0[2], X[2] - p0[3])
    one = np.ones(X[0].shape)
    al = case["alpha"](*off) * one
    be = np.array([b(*off) * one for b in case["beta"]])
    g = np.zeros((3, 3) + X[0].shape)
    for (i, j) in ST.SYM:
        g[i, j] = g[j, i] = case["gam"][(i, j)](*off) * one
    return al, be, g


def check_case(job):
    case, orc = job
    name, pi = case["module"], case["seed"]
    out = []
    mod = S.load(name, case["params"])
    spec = S.MODULES[name]
    p0 = S.float_point(case["point"])
    ptxt = ", ".join(f"{k} = {v}" for k, v in case["params"].items())
    where = f"aurel.solutions.{name}" + (f" ({ptxt})" if ptxt else "") + f" at (t, x, y, z) = {tuple(round(v, 6) for v in p0)}"
    rep = {"module": name, "point": pi, "tier": case.get("tier", "quick")}
    c = (1, 1, 1)

    def viol(clause, what, **sig):
        out.append((dict(clause=clause, module=name, **sig), f"{where}: {what}", dict(rep, clause=clause)))

    # ---- the transcription is the module's numerical metric (value, first and second derivatives)
    errs = []
    for h in (2e-2, 1e-2):
        X = S.grid3(p0, h)
        e = 0.0
        for dt in (-h, 0.0, h):
            al, be, g = S.module_metric(mod, p0[0] + dt, X)
            tal, tbe, tg = taylor(case, dt, X, p0)
            e = max(e, np.abs(al - tal).max(), np.abs(be - tbe).max(), np.abs(g - tg).max() / max(1.0, np.abs(tg).max()))
        errs.append(e)
    X = S.grid3(p0, 1e-2)
    al0, be0, g0 = S.module_metric(mod, p0[0], X)
    tal, tbe, tg = taylor(case, 0.0, X, p0)
    scale = max(1.0, np.abs(tg[(...,) + c]).max())
    at_point = max(abs(al0[c] - tal[c]), np.abs(be0[(...,) + c] - tbe[(...,) + c]).max(), np.abs(g0[(...,) + c] - tg[(...,) + c]).max() / scale)
    if at_point > 1e-11 or not (errs[0] < 1e-11 or errs[1] <= errs[0] / 5):
        viol("NumericalMetricIsTheTranscribedMetric",
             f"the numerical metric differs from the transcribed closed form: {at_point:.3g} at the point; remainder of the degree-2 "
             f"Taylor polynomial {errs[0]:.3g} at h = 0.02 and {errs[1]:.3g} at h = 0.01 (a cubic remainder shrinks 8-fold)")
    # ---- numerical and symbolic form offered by the module agree
    import inspect
    import sympy as sp
    for fname in ("gammadown3", "gdown4", "alpha"):
        f = getattr(mod, fname, None)
        if f is None or "analytical" not in inspect.signature(f).parameters:
            continue
        sy = sp.symbols("t x y z", real=True)
        expr = f(*sy, analytical=True)
        fn = sp.lambdify(sy, expr, modules=["numpy", "scipy"])
        rng = np.random.default_rng(17 + pi)
        for _ in range(3):
            q = [p0[0] * (1 + 0.1 * rng.uniform(-1, 1))] + [p0[k] + 0.3 * rng.uniform(-1, 1) for k in (1, 2, 3)]
            Xq = [np.full((1, 1, 1), q[k]) for k in (1, 2, 3)]
            num = np.asarray(f(q[0], *Xq))[..., 0, 0, 0]
            symv = np.asarray(fn(*q), dtype=float).reshape(np.shape(num))
            if np.abs(num - symv).max() > 1e-10 * max(1.0, np.abs(num).max()):
                viol("NumericalEqualsSymbolicForm", f"{fname}(analytical=True) evaluated at {tuple(round(v, 4) for v in q)} differs from the "
                     f"numerical {fname} by {np.abs(num - symv).max():.3g}", function=fname)
                break
    # gdown4 is the 4-metric of (alpha, beta, gamma)
    if hasattr(mod, "gdown4"):
        g4 = np.asarray(mod.gdown4(p0[0], *X))[(...,) + c]
        want = GR.as_array(orc["gdown4"], "gdown4") if orc else None
        if want is not None and np.abs(g4 - want).max() > TOL * max(1.0, np.abs(want).max()):
            viol("FourMetricFromThreePlusOne", f"gdown4 differs from the metric assembled from lapse, shift and gammadown3 by {np.abs(g4 - want).max():.3g}")
    if orc is None:
        return out, 0
    n = 0
    # ---- K_ij is the one defined by d_t gamma_ij, the lapse and the shift
    kref = GR.as_array(orc["Kdown3"], "Kdown3")
    if kref is not None and hasattr(mod, "Kdown3"):
        n += 1
        k = np.asarray(S.call(mod, "Kdown3", p0[0], X))[(...,) + c]
        if np.abs(k - kref).max() > TOL * max(1.0, np.abs(kref).max()):
            i = np.unravel_index(np.argmax(np.abs(k - kref)), (3, 3))
            viol("KIsTimeDerivativeOfGamma", f"Kdown3{list(i)} = {k[i]!r}; -(d_t gamma_ij - Lie_beta gamma_ij)/(2 alpha) = "
                 f"{orc['Kdown3'][int(i[0]) * 3 + int(i[1])]} exactly")
    # ---- the matter content satisfies Einstein's equations: kappa T_ab = G_ab + Lambda g_ab
    kt = GR.as_array(orc["kappaT"], "kappaT")
    if kt is not None:
        n += 1
        g4 = GR.as_array(orc["gdown4"], "gdown4")
        al = float(case["alpha"].c[(0, 0, 0, 0)])
        nd = np.array([-al, 0.0, 0.0, 0.0])
        kind = spec["matter"]
        if kind == "Tdown4":
            T = np.asarray(mod.Tdown4(p0[0], *X))[(...,) + c]
        else:
            if kind == "fluid":
                rho, pr = [np.broadcast_to(np.asarray(v, float), X[0].shape)[c] for v in (mod.rho(p0[0], *X), mod.press(p0[0], *X))]
            elif kind == "fluid_t":
                rho, pr = mod.rho(p0[0]), mod.press(p0[0])
            else:
                rho, pr = mod.rho(p0[0]), 0.0
            T = rho * np.outer(nd, nd) + pr * (g4 + np.outer(nd, nd))      # comoving fluid: u = n
        err = np.abs(KAPPA * T - kt)
        if err.max() > TOL * max(1.0, np.abs(kt).max()):
            i = np.unravel_index(np.argmax(err), (4, 4))
            viol("MatterSatisfiesEinstein", f"kappa T{list(i)} = {KAPPA * T[i]!r} but G_ab + Lambda g_ab = {orc['kappaT'][int(i[0]) * 4 + int(i[1])]} "
                 f"(= {float(orc['kappaT'][int(i[0]) * 4 + int(i[1])])!r}) for the module's metric (max abs difference {err.max():.3g}, "
                 f"relative {err.max() / max(1.0, np.abs(kt).max()):.3g})", component="".join(map(str, i)))
    # ---- closed-form scalars shipped alongside
    if spec.get("extra") == "Kretschmann":
        kr = GR.as_array(orc["Kretschmann"], "Kretschmann")
        if kr is not None:
            n += 1
            got = mod.Kretschmann(p0[0], *X)[c]
            if abs(got - kr) > TOL * max(1.0, abs(kr)):
                viol("PublishedScalarMatchesMetric", f"Kretschmann = {got!r}, the metric's Kretschmann scalar is {orc['Kretschmann'][0]}")
    if spec.get("extra") == "Kretschmann" and hasattr(mod, "null_ray_exp_out") and orc.get("div_u") and orc["div_u"][0] is not None:
        n += 1
        want = float(orc["div_u"][0])          # D_i s^i for the outward unit normal s^i of the coordinate spheres (K_ij = 0)
        got = mod.null_ray_exp_out(p0[0], *X)[c]
        if abs(got - want) > TOL * max(1.0, abs(want)):
            viol("PublishedScalarMatchesMetric", f"null_ray_exp_out = {got!r}, the expansion of the outgoing null rays of the metric (D_i s^i, K = 0) is "
                 f"{orc['div_u'][0]} = {want!r}", scalar="null_ray_exp_out")
    if hasattr(mod, "Hprop") and hasattr(mod, "a"):
        n += 1
        g = case["gam"][(0, 0)].c
        H = float(g[(1, 0, 0, 0)] / (2 * g[(0, 0, 0, 0)]))
        if abs(mod.Hprop(p0[0]) - H) > TOL * max(1.0, abs(H)):
            viol("PublishedScalarMatchesMetric", f"Hprop(t) = {mod.Hprop(p0[0])!r}, (d_t a)/a of the metric is {H!r}", scalar="Hprop")
    return out, n


def icpert(run, tier, seed):
    """spec/solutions/ICPert.tla -> aurel.solutions.ICPertFLRW: the first-order initial data on a quadratic curvature perturbation
    (constant, fully non-diagonal Hessian) for rational backgrounds; TLC checks K = -1/2 d_t gamma on the Einstein-de Sitter ones."""
    import types
    from fractions import Fraction as Fr
    from random import Random
    import aurel.finitedifference as fdm
    from aurel.solutions import ICPertFLRW as mod
    from ..tlc import run_tlc, wrapper
    rng = Random(seed + 17)
    r = lambda q: f"<<{Fr(q).numerator}, {Fr(q).denominator}>>"
    bgs = [dict(a2=Fr(4), H=Fr(1, 3), fL=Fr(1), Om=Fr(1), eds=True), dict(a2=Fr(9, 4), H=Fr(2), fL=Fr(1), Om=Fr(1), eds=True),
           dict(a2=Fr(1), H=Fr(1, 2), fL=Fr(1, 2), Om=Fr(3, 4), eds=False), dict(a2=Fr(16), H=Fr(3, 2), fL=Fr(3, 5), Om=Fr(1, 4), eds=False)]
    shape = (12, 13, 14)
    jobs = []
    for order in ((2, 4, 6, 8) if tier == "thorough" else (4, 6)):
        for boundary in ("no boundary", "periodic") if order == 4 else ("no boundary",):
            for bg in bgs:
                hess = rng.sample([Fr(k, 8) for k in range(-7, 8) if k], 6)          # xx, xy, xz, yy, yz, zz all different
                lin = [Fr(rng.randint(-3, 3), 8) for _ in range(3)]
                jobs.append((order, boundary, bg, hess, lin, Fr(rng.randint(-2, 2), 16)))
    cases, meta = [], []
    for order, boundary, bg, hess, lin, c0 in jobs:
        h = (Fr(1, 4), Fr(1, 2), Fr(1, 8))
        org = (Fr(-1, 2), Fr(1, 4), Fr(0))
        H2 = {(0, 0): hess[0], (0, 1): hess[1], (0, 2): hess[2], (1, 1): hess[3], (1, 2): hess[4], (2, 2): hess[5]}
        rc_at = lambda X: c0 + sum(lin[i] * X[i] for i in range(3)) + sum((1 if i != j else Fr(1, 2)) * H2[(i, j)] * X[i] * X[j] for (i, j) in H2)
        probes = [(0, 0, 0), (5, 6, 6), (11, 12, 13), (1, 0, 9)]
        if boundary == "periodic":
            probes = [(5, 6, 6)]      # a polynomial is not periodic: only a point whose stencils stay inside the box
        for pr in probes:
            X = [org[i] + pr[i] * h[i] for i in range(3)]
            cases.append("[a2 |-> %s, H |-> %s, fL |-> %s, Om |-> %s, rc |-> %s, hess |-> <<%s>>, eds |-> %s]" % (
                r(bg["a2"]), r(bg["H"]), r(bg["fL"]), r(bg["Om"]), r(rc_at(X)), ", ".join(r(x) for x in hess), "TRUE" if bg["eds"] else "FALSE"))
            meta.append((order, boundary, bg, hess, lin, c0, h, org, pr))
    name, text, cl = wrapper("ICPert", {"Cases": "<<" + ", ".join(cases) + ">>"})
    cfg = f"SPECIFICATION Spec\nCONSTANTS\n{cl}\nINVARIANT KIsMinusHalfDtGamma\nINVARIANT Symmetric\nINVARIANT Emit\n"
    res = run_tlc(name, cfg, ["solutions", "exact"], extra_files={name + ".tla": text}, timeout=1200)
    if res.violated:
        raise RuntimeError("ICPert.tla violates " + res.violated + ": the transcribed initial data do not have K = -1/2 d_t gamma")
    run.add_tlc(res, f"ICPert.tla: {len(cases)} (background, curvature perturbation, grid point) states; K = -1/2 d_t gamma on the Einstein-de Sitter ones")
    by = {p_["case"]: p_ for p_ in res.printed if "case" in p_}
    fr = lambda x: Fr(x[0], x[1])
    built = {}
    for ci, (order, boundary, bg, hess, lin, c0, h, org, pr) in enumerate(meta, start=1):
        key = (order, boundary, tuple(hess), tuple(lin), c0, tuple(bg.items()))
        if key not in built:
            fd = fdm.FiniteDifference({"Nx": shape[0], "Ny": shape[1], "Nz": shape[2], "xmin": float(org[0]), "ymin": float(org[1]), "zmin": float(org[2]),
                                       "dx": float(h[0]), "dy": float(h[1]), "dz": float(h[2])}, boundary=boundary, fd_order=order, verbose=False)
            X = (fd.x, fd.y, fd.z)
            H2 = {(0, 0): hess[0], (0, 1): hess[1], (0, 2): hess[2], (1, 1): hess[3], (1, 2): hess[4], (2, 2): hess[5]}
            Rc = float(c0) + sum(float(lin[i]) * X[i] for i in range(3)) + sum((1.0 if i != j else 0.5) * float(H2[(i, j)]) * X[i] * X[j] for (i, j) in H2)
            sol = types.SimpleNamespace(a=lambda t, b=bg: float(b["a2"]) ** 0.5, Hprop=lambda t, b=bg: float(b["H"]), fL=lambda t, b=bg: float(b["fL"]),
                                        Omega_m=lambda t, b=bg: float(b["Om"]))
            built[key] = (mod.gammadown3(sol, fd, 1.0, Rc), mod.Kdown3(sol, fd, 1.0, Rc), mod.delta1(sol, fd, 1.0, Rc))
        G, K, D = built[key]
        o = by[ci]
        for nm, got, want in (("gammadown3", G[(slice(None), slice(None)) + pr], np.array([float(fr(x)) for x in o["gam"]]).reshape(3, 3)),
                              ("Kdown3", K[(slice(None), slice(None)) + pr], np.array([float(fr(x)) for x in o["K"]]).reshape(3, 3)),
                              ("delta1", np.asarray(D[pr]), np.asarray(float(fr(o["delta1"]))))):
            run.count(("ICPertFLRW", nm, ci))
            if np.abs(got - want).max() > 1e-9 * max(1.0, np.abs(want).max()):
                run.violation({"clause": "ClosedFormAsPublished", "module": "ICPertFLRW", "scalar": nm},
                              f"ICPertFLRW.{nm} on the background a^2={bg['a2']}, H={bg['H']}, f_L={bg['fL']}, Omega_m={bg['Om']} with a quadratic Rc of Hessian "
                              f"(xx, xy, xz, yy, yz, zz) = {[str(x) for x in hess]} at grid point {pr} (fd_order={order}, {boundary}): {np.asarray(got).round(9).tolist()}, "
                              f"first-order initial data with K = -1/2 d_t gamma: {np.asarray(want).round(9).tolist()}", {"module": "ICPertFLRW", "point": "icpert", "clause": "ClosedFormAsPublished"})
                break
        else:
            run.traces += 1


KAPPA = 8 * np.pi


def run(tier, seed):
    run = Run("C17", tier, seed)
    assert J.selftest()
    cases = S.make_cases(tier)
    for c_ in cases:
        c_["tier"] = tier
    oracle, res, unlucky = oracle_for(cases)
    for r in res:
        run.add_tlc(GE.FakeRes(r), f"ThreePlusOne modulo {r['p']}: {len(cases)} (solution module, expansion point) pairs, oracle identities checked")
    run.info["unlucky_case_prime_pairs"] = unlucky
    run.info["oracle_values_not_reconstructed"] = sum(1 for o in oracle.values() if o for v in o.values() for x in v if x is None)
    run.info["oracle_fields_not_reconstructed"] = [(cases[ci - 1]["module"], cases[ci - 1]["seed"], f, sum(1 for x in v if x is None))
                                                   for ci, o in oracle.items() if o for f, v in o.items() if any(x is None for x in v)]
    run.info["modules_covered"] = sorted(S.MODULES)
    run.info["modules_not_covered"] = S.NOT_COVERED
    # the oracle must agree with what is known about these spacetimes (vacuity guard for the transcriptions)
    for ci, c in enumerate(cases, start=1):
        o = oracle.get(ci)
        if o and c["module"] in ("Schwarzschild_isotropic", "Harvey_Tsoubelis") and any(v != 0 for v in o["kappaT"] if v is not None):
            raise RuntimeError(f"transcription of {c['module']} is not a vacuum solution: G_ab = {o['kappaT']}")
    outs = [check_case((c, oracle.get(ci))) for ci, c in enumerate(cases, start=1)]
    for c, (fnds, n) in zip(cases, outs):
        for k in range(n):
            run.count((c["module"], c["seed"], k))
        if not fnds:
            run.traces += 1
        for sig, what, rep in fnds:
            run.violation(sig, what, rep)
    icpert(run, tier, seed)
    c = cases[6]
    run.sample({"module": c["module"], "point": [str(v) for v in c["point"]],
                "gamma_xx_jet": {str(m): str(v) for m, v in c["gam"][(0, 0)].c.items() if v != 0},
                "oracle_kappaT": [str(x) for x in (oracle.get(7) or {}).get("kappaT", [])[:6]]})
    run.rule = ("for 8 of the 10 solution modules the 3+1 metric is transcribed as a closed form with rational parameters (the module's own "
                "free parameters are set to the same values) and expanded at points where every 2-jet is rational although the functions are "
                "transcendental; TLC (ThreePlusOne.tla) derives K_ij = -(d_t gamma - Lie_beta gamma)/(2 alpha), G_ab + Lambda g_ab and the Kretschmann "
                "scalar in exact arithmetic modulo 12 primes (validated by Riemann symmetries, Bianchi, metric compatibility, vanishing "
                "constraints); compared with the module's numerical Kdown3, Tdown4 / rho / press, Kretschmann and Hprop at the same point "
                "(relative tolerance 2e-9). The transcription is bound to the module by its value and by the cubic decay of the remainder of "
                "its degree-2 Taylor polynomial on a stencil in (t, x, y, z); the module's analytical=True forms are compared with its numerical "
                "forms at random nearby points. Non-trivial = every (module, point, clause)")
    run.assumptions = ["expansion points are those with rational jets: 1-3 per module, not every time and position of the domain",
                       "free parameters of the modules are set to rationals (Collins-Stewart gamma in {10/7, 1}; Rosquist-Jantzen s, q, k, m arbitrary rationals - its "
                       "stress-energy tensor is G/kappa for any of them; Non_diagonal wave number 1/2 or 1; EdS t_today in {1, 3}; LCDM (Omega_m, H0) in "
                       "{(9/25, 1/2), (16/25, 1), (9/25, 2/3)}, expanded where a = a_today; a_today in {1, 3, 1/4}); the shipped default values of irrational parameters are not exercised",
                       "not covered: " + "; ".join(f"{k}: {v}" for k, v in S.NOT_COVERED.items())]
    return run.finish()


def replay(path):
    with open(path) as fh:
        r = json.load(fh)["replay"]
    cases = [c for c in S.make_cases(r.get("tier", "quick")) if c["module"] == r["module"] and c["seed"] == r["point"]]
    oracle, res, _ = oracle_for(cases)
    fnds, _ = check_case((cases[0], oracle.get(1)))
    fnds = [f for f in fnds if f[0]["clause"] == r.get("clause", f[0]["clause"])]
    for f in fnds:
        print(f[0], f[1])
    return 1 if fnds else 0
