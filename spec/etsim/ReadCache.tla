------------------------------ MODULE ReadCache ------------------------------
(* The per-iteration read cache of read_ET_data (reading.py:1511-1834), C12.  *)
(* read_data(..., split_per_it=True) first looks into                         *)
(*   <sim>/output-000r/<sim>/all_iterations/it_<i>.hdf5                       *)
(* (Aurel format, one file per iteration, datasets "<var> rl=<n>"), reads     *)
(* what is missing from the Einstein Toolkit files and saves it there.        *)
(* Reference semantics: whatever the history of reads, every call returns     *)
(* Truth, and every dataset ever written to a cache file holds Truth of the   *)
(* (variable, iteration, level, restart) it is filed under.                   *)
EXTENDS Integers, Sequences, FiniteSets, TLC, Json

CONSTANTS Restarts,     \* sequence of [lo, hi, every]: the simulation (fixed while reads happen)
          NLev,
          Queries,      \* set of [it |-> seq, names |-> seq of requested names, rl |-> n, split |-> BOOLEAN]
          Components,   \* name -> set of stored scalar components (a tensor name stands for its components; a request may
                        \* name a tensor AND one of its components, or the same name twice)
          MaxReads,
          Emit

VARIABLES cache,        \* set of [r, i, v, rl]: entries present in the cache files (all hold Truth in the reference semantics)
          hist
vars == <<cache, hist>>

Range(s) == {s[i] : i \in 1 .. Len(s)}
RECURSIVE SortSet(_)
SortSet(S) == IF S = {} THEN << >> ELSE LET m == CHOOSE x \in S : \A y \in S : x <= y IN <<m>> \o SortSet(S \ {m})
Its(r)     == {i \in Restarts[r].lo .. Restarts[r].hi : i % Restarts[r].every = 0}
AllIts     == UNION {Its(r) : r \in 1 .. Len(Restarts)}
Serving(i) == CHOOSE r \in 1 .. Len(Restarts) : i \in Its(r) /\ \A q \in 1 .. Len(Restarts) : i \in Its(q) => q <= r

Admissible(q) == q.rl < NLev /\ Range(q.it) \subseteq AllIts

(* entries a cached read leaves behind: every requested component at every requested iteration, *)
(* filed in the restart that serves the iteration                                               *)
Comps(q)   == UNION {Components[n] : n \in Range(q.names)}
Entries(q) == {[r |-> Serving(i) - 1, i |-> i, v |-> v, rl |-> q.rl] : i \in Range(q.it), v \in Comps(q)}

Init == cache = {} /\ hist = << >>
Read(q) == /\ Len(hist) < MaxReads /\ Admissible(q)
           /\ cache' = IF q.split THEN cache \cup Entries(q) ELSE cache
           /\ hist' = Append(hist, q)
Next == \E q \in Queries : Read(q)
Spec == Init /\ [][Next]_vars

(* what the call returns: the serving restart of every iteration, in sorted order - independent of the cache *)
Result(q) == LET its == SortSet(Range(q.it)) IN [it |-> its, from |-> [n \in 1 .. Len(its) |-> Serving(its[n]) - 1], comps |-> Comps(q)]

CacheOnlyGrows  == [][cache \subseteq cache']_vars
CacheWellFiled  == \A e \in cache : e.i \in Its(e.r + 1) /\ e.r = Serving(e.i) - 1 /\ e.rl < NLev
UncachedReadsLeaveNoTrace == [][(~hist'[Len(hist')].split) => cache' = cache]_vars

EmitState == (Emit /\ hist # << >>) =>
    PrintT(ToJson([hist |-> hist, cache |-> cache, result |-> Result(hist[Len(hist)])]))
=============================================================================
