"""C12: the per-iteration read cache never changes what read_data returns."""
import json

from .. import et_engine as E
from ..common import Run


def group(printed):
    """Records of the same behaviour (prefix-closed) grouped under their longest history."""
    by_hist = {}
    for p in printed:
        if "hist" in p and "cache" in p:
            by_hist[json.dumps(p["hist"], sort_keys=True)] = p
    longest = {}
    for key, p in by_hist.items():
        h = p["hist"]
        is_prefix = any(len(o["hist"]) > len(h) and o["hist"][:len(h)] == h for o in by_hist.values()) if len(by_hist) < 4000 else False
        if not is_prefix:
            longest[key] = p
    out = []
    for p in longest.values():
        h = p["hist"]
        recs = [by_hist[json.dumps(h[:n], sort_keys=True)] for n in range(1, len(h) + 1) if json.dumps(h[:n], sort_keys=True) in by_hist]
        out.append(recs)
    return out


def run(tier, seed):
    run = Run("C12", tier, seed)
    # exhaustive over pairs of reads on a reduced alphabet, simulated longer histories on the full one
    small = [q for q in E.CACHE_QUERIES if q["it"] in ([4], [4, 8], [0, 4, 8, 12]) and q["names"] in (["betax"], ["betaup3"], ["betay", "alpha"], ["betaup3", "betax"])]
    r1 = E.run_readcache(2, queries=small)
    run.add_tlc(r1, f"ReadCache: all sequences of 2 reads over {len(small)} queries")
    r2 = E.run_readcache(4, simulate=(12 if tier == "quick" else 150), seed=seed + 1)
    run.add_tlc(r2, "ReadCache: simulated sequences of 4 reads over the full query alphabet")
    groups = []
    for r in (r1, r2):
        if r.violated:
            raise RuntimeError("ReadCache spec violates " + r.violated)
        groups += group(r.printed)
    if tier == "thorough":
        r3 = E.run_readcache(3, queries=small[::2])
        run.add_tlc(r3, "ReadCache: all sequences of 3 reads over a reduced alphabet")
        groups += group(r3.printed)
    jobs = [(g, i) for i, g in enumerate(groups)]
    res = E.pmap(E.check_cache_history, jobs)
    for (g, li), fnds in zip(jobs, res):
        h = g[-1]["hist"]
        nontrivial = len(h) >= 2 and any(q["split"] for q in h[:-1])
        run.count((json.dumps(h, sort_keys=True), li % 4) if nontrivial else None)
        real = [f for f in fnds if not f[0].get("drift")]
        if not real:
            run.traces += 1
        for sig, what, rep in fnds:
            if sig.get("drift"):
                run.note_drift(what)
            else:
                run.violation(sig, what, rep)
    if groups:
        g = groups[len(groups) // 2]
        run.sample({"history": g[-1]["hist"], "expected_cache_entries": g[-1]["cache"][:5], "expected_result": g[-1]["result"]})
    run.rule = ("read histories enumerated by TLC over ReadCache.tla (iteration subsets whose hash-set order is not ascending, component, tensor and mixed tensor+component "
                "requests, two levels, cached and uncached calls interleaved) are replayed on generated simulation directories in the four layouts (2 restarts with an overlapping iteration, 2 "
                "chunks); after EVERY call each returned array is compared with the stored data and EVERY dataset of every cache file is decoded and "
                "compared with the data of the (variable, iteration, level, restart) it is filed under. Non-trivial = >= 2 reads with a cached read first")
    run.assumptions = ["the simulation directory does not change between reads", "values encode (variable, restart, iteration, level, position)"]
    return run.finish()


def replay(path):
    with open(path) as fh:
        r = json.load(fh)["replay"]
    recs = [{"hist": r["hist"][:n], "cache": []} for n in range(1, len(r["hist"]) + 1)]
    f = E.check_cache_history((recs, E.LAYOUTS.index(tuple(r["layout"]))))
    f = [x for x in f if not x[0].get("drift")]
    for x in f:
        print(x[0], x[1])
    return 1 if f else 0
