"""C09: fluid variables yield the textbook stress-energy tensor and Eulerian projections."""
import json
from fractions import Fraction as F
from random import Random

import numpy as np

from .. import geo_engine as GE
from .. import jets as J
from ..common import Run

FIELDS = ["W2", "Uup", "Udown", "Tdown4", "hdown4", "Ttrace", "rho_n", "fluxdown3_n", "fluxup3_n", "Stressdown3_n", "Stressup3_n",
          "Stresstrace_n", "press_n", "rho", "enthalpy", "gammadet"]
SHAPES = {"Uup": (4,), "Udown": (4,), "Tdown4": (4, 4), "hdown4": (4, 4), "fluxdown3_n": (3,), "fluxup3_n": (3,),
          "Stressdown3_n": (3, 3), "Stressup3_n": (3, 3)}
KAPPA = 8 * np.pi


def make_points(n, seed):
    rng = Random(seed)
    pts = []
    while len(pts) < n:
        L = [[1, 0, 0], [rng.randint(-2, 2), 1, 0], [rng.randint(-2, 2), rng.randint(-2, 2), 1]]
        d = [rng.randint(1, 3) for _ in range(3)]
        g = [[sum(L[i][k] * d[k] * L[j][k] for k in range(3)) for j in range(3)] for i in range(3)]
        kind = len(pts) % 5
        v = [F(rng.randint(-3, 3), 16) for _ in range(3)]
        if kind == 0:
            v = [F(0)] * 3                        # fluid at rest
        b = [F(rng.randint(-3, 3), 2) for _ in range(3)]
        if kind == 1:
            b = [F(0)] * 3                        # zero shift
        a = F(rng.randint(1, 6), 2) if kind != 2 else F(1)
        s = sum(F(g[i][j]) * v[i] * v[j] for i in range(3) for j in range(3))
        if s >= F(9, 10):
            continue
        r0, pr = F(rng.randint(1, 8), 4), F(rng.randint(0, 6), 8)
        if len(pts) % 7 == 3:
            r0, pr = F(0), F(rng.randint(1, 6), 8)      # a region without baryons but with pressure (radiation): rho0 h is rho + p, h itself undefined
        pts.append({"al": a, "be": b, "gam": [F(g[0][0]), F(g[0][1]), F(g[0][2]), F(g[1][1]), F(g[1][2]), F(g[2][2])], "v": v,
                    "r0": r0, "ep": F(rng.randint(0, 6), 8), "pr": pr, "kind": kind})
    return pts


def res(x, p):
    x = F(x)
    return int(x.numerator % p) * pow(int(x.denominator % p), p - 2, p) % p


def cases_tla(pts, p):
    seq = lambda xs: "<<" + ", ".join(str(res(x, p)) for x in xs) + ">>"
    return "<<" + ", ".join(f"[al |-> {res(q['al'], p)}, be |-> {seq(q['be'])}, gam |-> {seq(q['gam'])}, v |-> {seq(q['v'])}, "
                            f"r0 |-> {res(q['r0'], p)}, ep |-> {res(q['ep'], p)}, pr |-> {res(q['pr'], p)}]" for q in pts) + ">>"


def grid_shape(n):
    a = int(np.ceil(n ** (1 / 3)))
    return (a, a, int(np.ceil(n / (a * a))))


def build(pts, mode):
    """One grid point per state.  mode: 'fluid' (fluid variables given) or 'T' (T_mu_nu supplied directly)."""
    import aurel.core as core
    import aurel.finitedifference as fdm
    n = len(pts)
    shape = grid_shape(n)
    tot = shape[0] * shape[1] * shape[2]
    fd = fdm.FiniteDifference({"Nx": shape[0], "Ny": shape[1], "Nz": shape[2], "xmin": 0.0, "ymin": 0.0, "zmin": 0.0,
                               "dx": 1.0, "dy": 1.0, "dz": 1.0}, fd_order=2, verbose=False)

    def fld(f):
        return np.array([float(f(p)) for p in pts] + [float(f(pts[0]))] * (tot - n)).reshape(shape)
    rel = core.AurelCore(fd, verbose=False, clear_cache_every_nbr_calc=10 ** 6, Lambda=0.3)
    S = [(0, 0), (0, 1), (0, 2), (1, 1), (1, 2), (2, 2)]
    gam = np.zeros((3, 3) + shape)
    for k, (i, j) in enumerate(S):
        gam[i, j] = gam[j, i] = fld(lambda p, k=k: p["gam"][k])
    rel.data["gammadown3"] = gam
    rel.data["alpha"] = fld(lambda p: p["al"])
    rel.data["betaup3"] = np.array([fld(lambda p, i=i: p["be"][i]) for i in range(3)])
    return rel, fld, shape, tot


def run(tier, seed):
    run = Run("C09", tier, seed)
    assert J.selftest()
    pts = make_points(60 if tier == "quick" else 400, seed)
    primes = J.PRIMES[:8]
    defs = {p: {"Cases": cases_tla(pts, p)} for p in primes}
    res_ = GE.run_mod_primes("Fluid", defs, ["ClosedForms", "Emit"], primes=primes)
    for r in res_:
        if r["violated"]:
            raise RuntimeError(f"Fluid oracle violates {r['violated']} modulo {r['p']}:\n{r['tail']}")
        run.add_tlc(GE.FakeRes(r), f"Fluid modulo {r['p']}: {len(pts)} points, closed forms E = rho0 h W^2 - p, S_i, S_ij, T = 3p - rho, h u = 0 checked")
    oracle, unlucky = GE.lift_records(res_, FIELDS)
    run.info["unlucky_case_prime_pairs"] = unlucky
    n = len(pts)

    def oval(k, field):
        o = oracle.get(k + 1)
        if o is None or any(x is None for x in o[field]):
            return None
        a = np.array([float(x) for x in o[field]])
        return a.reshape(SHAPES[field]) if field in SHAPES else a[0]

    for mode in ("fluid", "T"):
        rel, fld, shape, tot = build(pts, mode)
        W = np.sqrt(np.array([oval(k, "W2") if oval(k, "W2") is not None else 1.0 for k in range(n)]))
        Wf = np.concatenate([W, np.ones(tot - n) * W[0]]).reshape(shape)
        if mode == "fluid":
            for i, nm in enumerate(["velx", "vely", "velz"]):
                rel.data[nm] = fld(lambda p, i=i: p["v"][i])
            rel.data["w_lorentz"] = Wf
            rel.data["rho0"] = fld(lambda p: p["r0"])
            rel.data["eps"] = fld(lambda p: p["ep"])
            rel.data["press"] = fld(lambda p: p["pr"])
        else:
            T = np.zeros((4, 4) + shape)
            for k in range(tot):
                idx = np.unravel_index(k, shape)
                t = oval(min(k, n - 1) if k < n else 0, "Tdown4")
                T[(slice(None), slice(None)) + idx] = t if t is not None else 0.0
            rel.data["Tdown4"] = T
        rel.freeze_data()
        keys = [("Tdown4", "Tdown4", None), ("rho_n", "rho_n", None), ("fluxdown3_n", "fluxdown3_n", None), ("fluxup3_n", "fluxup3_n", None),
                ("Stressdown3_n", "Stressdown3_n", None), ("Stressup3_n", "Stressup3_n", None), ("Stresstrace_n", "Stresstrace_n", None),
                ("press_n", "press_n", None), ("Ttrace", "Ttrace", None)]
        if mode == "fluid":
            keys = [("Ttrace", "Ttrace", None), ("uup4", "Uup", "W"), ("udown4", "Udown", "W"), ("hdown4", "hdown4", None),
                    ("rho", "rho", None), ("enthalpy", "enthalpy", None)] + keys
        for code_key, field, scale_by in keys:
            try:
                got = rel[code_key].reshape(SHAPES.get(field, ()) + (tot,))
            except Exception as ex:
                run.violation({"clause": "Computes", "key": code_key, "mode": mode}, f"rel[{code_key!r}] raised {type(ex).__name__}: {ex}", {})
                continue
            for k in range(n):
                want = oval(k, field)
                if want is None or (code_key == "enthalpy" and pts[k]["r0"] == 0):
                    continue
                if scale_by == "W":
                    want = want * W[k]
                g = got[..., k]
                run.count((mode, code_key, k) if pts[k]["kind"] not in (0,) or code_key not in ("uup4",) else None)
                if np.abs(g - want).max() > 1e-10 * max(1.0, np.abs(want).max()):
                    q = pts[k]
                    needs = "shift-or-lapse-or-velocity" if (any(q["be"]) or q["al"] != 1 or any(q["v"])) else "any"
                    run.violation({"clause": "TextbookValue", "key": code_key, "mode": mode, "needs": needs},
                                  f"[{mode} input] rel[{code_key!r}] at the point alpha={q['al']}, beta={[str(x) for x in q['be']]}, "
                                  f"v={[str(x) for x in q['v']]}, rho0={q['r0']}, eps={q['ep']}, p={q['pr']}: got "
                                  f"{np.asarray(g).round(8).tolist()}, textbook value {np.asarray(want).round(8).tolist()}",
                                  {"point": {k2: str(v) for k2, v in q.items()}, "key": code_key, "mode": mode})
                    break
        # identities and alternative derivations on the code's outputs
        g4 = rel["gdown4"]
        if mode == "fluid":
            uu = np.einsum("a...,a...->...", rel["uup4"], rel["udown4"])
            checks = {"u_mu u^mu = -1": np.abs(uu + 1).max(),
                      "h_mu_nu u^nu = 0": np.abs(np.einsum("ab...,b...->a...", rel["hdown4"], rel["uup4"])).max(),
                      "hmixed4 = g^-1 h": np.abs(rel["hmixed4"] - np.einsum("ac...,cb...->ab...", rel["gup4"], rel["hdown4"])).max(),
                      "trace hmixed4 = 3": np.abs(np.einsum("aa...->...", rel["hmixed4"]) - 3).max(),
                      "hup4 = g^-1 h g^-1": np.abs(rel["hup4"] - np.einsum("ac...,bd...,cd...->ab...", rel["gup4"], rel["gup4"], rel["hdown4"])).max(),
                      "conserved_D = rho0 W sqrt(gamma)": np.abs(rel["conserved_D"] - rel.data["rho0"] * Wf * np.sqrt(rel["gammadet"])).max(),
                      "conserved_E = D eps": np.abs(rel["conserved_E"] - rel["conserved_D"] * rel.data["eps"]).max(),
                      "conserved_S_mu = D h u_mu": np.abs(rel["conserved_Sdown4"] - rel["conserved_D"] * rel["enthalpy"] * rel["udown4"]).max(),
                      "conserved_Sup4 raised": np.abs(rel["conserved_Sup4"] - np.einsum("ab...,b...->a...", rel["gup4"], rel["conserved_Sdown4"])).max(),
                      "veldown3 = gamma v": np.abs(rel["veldown3"] - np.einsum("ij...,j...->i...", rel["gammadown3"], rel["velup3"])).max()}
        else:
            checks = {}
        T = rel["Tdown4"]
        tr = np.einsum("ab...,ab...->...", rel["gup4"], T)
        checks["Tup4 raised"] = np.abs(rel["Tup4"] - np.einsum("ac...,bd...,ab...->cd...", rel["gup4"], rel["gup4"], T)).max()
        checks["st_Ricci_down3 = Lambda gamma + kappa (T_ij - T gamma_ij / 2)"] = np.abs(
            rel["st_Ricci_down3"] - (0.3 * rel["gammadown3"] + KAPPA * (T[1:, 1:] - 0.5 * tr * rel["gammadown3"]))).max() / KAPPA
        checks["st_Ricci_down4 spatial block = st_Ricci_down3"] = np.abs(rel["st_Ricci_down4"][1:, 1:] - rel["st_Ricci_down3"]).max() / KAPPA
        checks["anisotropic stress trace-free"] = np.abs(np.einsum("ab...,ab...->...", rel["gammaup3"], rel["anisotropic_press_down3_n"])).max()
        # every key is read once more at the end: a cached entry overwritten by a later request shows up here
        for code_key, field, scale_by in keys:
            got = rel[code_key].reshape(SHAPES.get(field, ()) + (tot,))
            for k in range(n):
                want = oval(k, field)
                if want is None or (code_key == "enthalpy" and pts[k]["r0"] == 0):
                    continue
                if scale_by == "W":
                    want = want * W[k]
                if np.abs(got[..., k] - want).max() > 1e-10 * max(1.0, np.abs(want).max()):
                    run.violation({"clause": "TextbookValue", "key": code_key, "mode": mode, "when": "re-read after all other requests"},
                                  f"[{mode} input] rel[{code_key!r}] read again after the other quantities were requested no longer has the "
                                  f"textbook value (cached entry overwritten): {np.asarray(got[..., k]).round(6).tolist()} vs "
                                  f"{np.asarray(want).round(6).tolist()}", {"key": code_key, "mode": mode})
                    break
        for name, err in checks.items():
            run.count((mode, "identity", name))
            if not np.isfinite(err) or err > 1e-9:
                run.violation({"clause": "Identity", "identity": name, "mode": mode},
                              f"[{mode} input] '{name}' fails on the grid of {n} exact points: max deviation {err:.3g}", {})
        run.traces += 1
    # second branch of Ttrace: requested after Tdown4 has been cached (fluid input)
    rel, fld, shape, tot = build(pts, "fluid")
    for i, nm in enumerate(["velx", "vely", "velz"]):
        rel.data[nm] = fld(lambda p, i=i: p["v"][i])
    rel.data["w_lorentz"] = Wf
    rel.data["rho0"], rel.data["eps"], rel.data["press"] = fld(lambda p: p["r0"]), fld(lambda p: p["ep"]), fld(lambda p: p["pr"])
    rel.freeze_data()
    rel["Tdown4"]
    tt = rel["Ttrace"].reshape(tot)
    for k in range(n):
        want = oval(k, "Ttrace")
        if want is not None and abs(tt[k] - want) > 1e-10 * max(1.0, abs(want)):
            run.violation({"clause": "TextbookValue", "key": "Ttrace", "mode": "fluid", "branch": "Tdown4 cached"},
                          f"Ttrace computed from a cached Tdown4 = {tt[k]!r}, 3p - rho = {want!r}", {"point": {k2: str(v) for k2, v in pts[k].items()}})
            break
    run.sample({"point": {k: str(v) for k, v in pts[3].items()}, "oracle_Tdown4": [str(x) for x in oracle[4]["Tdown4"][:6]] if oracle.get(4) else None})
    run.rule = ("points with exact rational lapse, shift, non-diagonal metric, velocity, rho0, eps, p (classes: fluid at rest, zero shift, unit lapse, "
                "generic); TLC computes u, T_mu_nu = rho0 h u u + p g and its Eulerian projections in exact arithmetic and checks the closed forms "
                "E = rho0 h W^2 - p, S_i = rho0 h W^2 v_i, S_ij, T = 3p - rho = S - E, h u = 0 on every state; the real keys are compared at every "
                "grid point (one TLC state per point) with fluid variables given and with T_mu_nu supplied directly; identities (u.u = -1, "
                "projector, conserved densities, Ricci from T in both derivations) are evaluated on the code's outputs")
    run.assumptions = ["W is the float square root of the exact W^2; comparison within 1e-10 relative"]
    return run.finish()


def replay(path):
    print("re-run ./check C09 quick")
    return 1
