"""C17: the analytic solution modules against the exact ThreePlusOne oracle.

For every module a *transcription* of its 3+1 metric as a sympy expression with exact rational parameters (the
module's own free parameters are set to the same rationals), and expansion points where every 2-jet of the metric is
a rational number although the functions are transcendental (sin u = 3/5, exp x = 2, t^(2/5) at t = 32, sinh = 4/3 ..).
The jets go to TLC (ThreePlusOne.tla), which derives K_ij from its definition, G_ab + Lambda g_ab and the Kretschmann
scalar in exact arithmetic; the module's numerical functions are evaluated at the same (floating point) point.
"""
import importlib
from fractions import Fraction as F

import numpy as np

from . import jets as J
from .spacetime import SYM

KAPPA = 8 * np.pi
DIGITS = 60


def _sym():
    import sympy as sp
    return sp, sp.symbols("t x y z", real=True)


def R(a, b=1):
    import sympy as sp
    return sp.Rational(a, b)


# ---------------------------------------------------------------------------
# transcriptions: metric(sp, t, x, y, z, P) -> (alpha, [beta], {(i, j): gamma_ij}) with P the (rational) free parameters
def _schw(sp, t, x, y, z, P):
    r = sp.sqrt(x ** 2 + y ** 2 + z ** 2)
    A = (1 + P["M"] / (2 * r)) ** 4
    return (2 * r - P["M"]) / (2 * r + P["M"]), [0, 0, 0], {k: (A if k[0] == k[1] else 0) for k in SYM}


def _conf(sp, t, x, y, z, P):
    Om = 1 + P["eps"] * x ** 2
    return Om, [0, 0, 0], {k: (Om ** 2 if k[0] == k[1] else 0) for k in SYM}


def _nondiag(sp, t, x, y, z, P):
    A = R(23, 10) + R(2, 10) * sp.sin(P["fq"] * z)
    B = t * A
    g = {(0, 0): B, (0, 1): 1, (0, 2): 1, (1, 1): B, (1, 2): 0, (2, 2): B}
    return 1, [0, 0, 0], g


def _collins(sp, t, x, y, z, P):
    gamma = P["gamma"]
    p1 = (2 - gamma) / (2 * gamma)
    p2 = (2 + gamma) / (4 * gamma)
    s = sp.sqrt((2 - gamma) * (3 * gamma - 2))
    u = s * z / (2 * gamma)
    a, b = t ** (2 * p1), t ** (2 * p2)
    g = {(0, 0): a, (0, 1): a * u, (0, 2): 0, (1, 1): b + a * u ** 2, (1, 2): 0, (2, 2): b}
    return 1, [0, 0, 0], g


def _harvey(sp, t, x, y, z, P):
    ex = sp.exp(x)
    B = x + sp.log(t)
    g = {(0, 0): t ** 2, (0, 1): 0, (0, 2): 0, (1, 1): t * ex, (1, 2): t * ex * B, (2, 2): t * ex * (B * B + 1)}
    return 1, [0, 0, 0], g


def _rosquist(sp, t, x, y, z, P):
    s, q, k, m = P["s"], P["q"], P["k"], P["m"]
    g = {(0, 0): k * k * t * t * (1 + m * m), (0, 1): m * k * t ** (1 + s - q) * sp.exp(x), (0, 2): 0,
         (1, 1): t ** (2 * (s - q)) * sp.exp(2 * x), (1, 2): 0, (2, 2): t ** (2 * (s + q)) * sp.exp(-2 * x)}
    return 1, [0, 0, 0], g


def _eds(sp, t, x, y, z, P):
    a2 = (P.get("a_today", R(1)) * (t / P["t_today"]) ** R(2, 3)) ** 2
    return 1, [0, 0, 0], {k: (a2 if k[0] == k[1] else 0) for k in SYM}


def _lcdm(sp, t, x, y, z, P):
    Om, Ol = P["Om"], 1 - P["Om"]
    t_eds = 2 / (3 * P["H0"])
    a = P.get("a_today", R(1)) * (Om / Ol) ** R(1, 3) * sp.sinh(sp.sqrt(Ol) * t / t_eds) ** R(2, 3)
    return 1, [0, 0, 0], {k: (a ** 2 if k[0] == k[1] else 0) for k in SYM}


def _patch_schw(mod, P):
    mod.M = float(P["M"])


def _patch_conf(mod, P):
    mod.eps = float(P["eps"])


def _patch_collins(mod, P):
    g = float(P["gamma"])
    mod.gamma = g
    mod.p1 = (2 - g) / (2 * g)
    mod.p2 = (2 + g) / (4 * g)
    mod.s = np.sqrt((2 - g) * (3 * g - 2))


def _patch_rosquist(mod, P):
    for k in ("s", "q", "k", "m"):
        setattr(mod, k, float(P[k]))


def _patch_nondiag(mod, P):
    mod.fq = float(P["fq"])
    mod.Lambda = 2 * np.pi / mod.fq      # the wavelength (this module's `Lambda` is not a cosmological constant)


def _patch_eds(mod, P):
    mod.a_today = float(P.get("a_today", 1))
    mod.t_today = float(P["t_today"])
    mod.Hprop_today = 2.0 / (3.0 * mod.t_today)


def _patch_lcdm(mod, P):
    mod.a_today = float(P.get("a_today", 1))
    mod.Omega_m_today = float(P["Om"])
    mod.Omega_l_today = 1 - mod.Omega_m_today
    mod.Hprop_today = float(P["H0"])
    mod.t_today_EdS = 2 / (3 * mod.Hprop_today)
    mod.Lambda = mod.Omega_l_today * 3 * mod.Hprop_today ** 2


def _lcdm_today(P):
    """The time at which a = 1: sinh(tau) = sqrt(Ol/Om), cosh(tau) = 1/sqrt(Om) (all rational for the parameter sets used)."""
    import sympy as sp
    Ol = 1 - P["Om"]
    return sp.asinh(sp.sqrt(Ol / P["Om"])) * (2 / (3 * P["H0"])) / sp.sqrt(Ol)


def _param_sets(tier):
    """name -> list of (parameters, points).  Points are chosen so that every 2-jet of the metric is rational."""
    import sympy as sp
    ln, asin = sp.log, sp.asin
    quick = tier == "quick"
    sets = {
        "Schwarzschild_isotropic": [({"M": R(1)}, [(0, R(1), R(1, 2), R(1)), (R(1, 3), R(2), R(3), R(6)), (0, R(-3, 2), R(-1), R(3)),
                                                   (0, R(1, 9), R(2, 9), R(2, 9))])],      # the last one inside r < M/2
        "Conformally_flat": [({"eps": R(2)}, [(0, R(1, 2), R(0), R(0)), (R(1), R(-1), R(2, 3), R(1, 5)), (0, R(3, 4), R(1), R(-2))])],
        "Non_diagonal": [({"fq": R(1, 2)}, [(R(1), R(0), R(0), 2 * asin(R(3, 5))), (R(2), R(1, 3), R(-1), 2 * asin(R(-5, 13))), (R(3, 2), R(0), R(1), R(0))])],
        "Collins_Stewart": [({"gamma": R(10, 7)}, [(R(1), R(0), R(0), R(1, 2)), (R(32), R(1), R(2), R(-7, 4)), (R(1), R(3), R(0), R(7, 8))])],
        "Harvey_Tsoubelis": [({}, [(R(1), R(0), R(1, 2), R(1, 3)), (R(1, 2), ln(2), R(0), R(0)), (R(2, 3), ln(R(3, 2)), R(1), R(-1))])],
        # exponents of t are 1+s-q, 2(s-q), 2(s+q): any t with the generic set at t = 1 only; half-integer / integer exponents
        # (s, q) = (1/2, 0), (3/2, 1/2) allow t = 4, 9/4 and any rational t
        "Rosquist_Jantzen": [({"s": R(1, 3), "q": R(1, 7), "k": R(3, 2), "m": R(2, 5)},
                              [(R(1), R(0), R(0), R(0)), (R(1), ln(2), R(1), R(1, 2))]),
                             ({"s": R(1, 2), "q": R(0), "k": R(3, 2), "m": R(2, 5)}, [(R(4), ln(R(2, 3)), R(0), R(-1)), (R(9, 4), R(0), R(1), R(0))]),
                             ({"s": R(3, 2), "q": R(1, 2), "k": R(1, 2), "m": R(3)}, [(R(2), ln(2), R(0), R(0)), (R(1, 3), ln(R(3, 2)), R(0), R(1))])],
        "EdS": [({"t_today": R(1)}, [(R(1), R(0), R(0), R(0)), (R(8), R(1), R(2), R(3))]),
                ({"t_today": R(1), "a_today": R(3)}, [(R(27, 8), R(0), R(1), R(0))])],       # scale factor normalised to 3 today
        "LCDM": [({"Om": R(9, 25), "H0": R(1, 2)}, ["today"]), ({"Om": R(9, 25), "H0": R(1, 2), "a_today": R(1, 4)}, ["today"])],
    }
    if not quick:
        sets["Schwarzschild_isotropic"] += [({"M": R(1)}, [(0, R(1), R(4), R(8)), (R(2), R(4, 3), R(4, 3), R(7, 3)), (0, R(2, 5), R(6, 5), R(9, 5)), (0, R(-6), R(6), R(7))]),
                                            ({"M": R(5, 2)}, [(0, R(1), R(2), R(2)), (0, R(2), R(3), R(6)), (0, R(2, 3), R(-1, 3), R(2, 3))])]
        sets["Conformally_flat"] += [({"eps": R(1, 3)}, [(0, R(1), R(0), R(0)), (R(2), R(-3), R(1), R(1)), (0, R(0), R(0), R(0))]),
                                     ({"eps": R(5)}, [(0, R(1, 10), R(0), R(0)), (0, R(-2, 5), R(1), R(7))])]
        sets["Non_diagonal"] += [({"fq": R(1)}, [(R(1), R(0), R(0), asin(R(4, 5))), (R(5, 2), R(0), R(0), asin(R(-3, 5))), (R(3), R(1), R(1), asin(R(8, 17)))]),
                                 ({"fq": R(1, 2)}, [(R(4), R(0), R(0), 2 * asin(R(7, 25))), (R(1, 2), R(0), R(0), 2 * asin(R(-4, 5)))])]
        sets["Collins_Stewart"] += [({"gamma": R(1)}, [(R(1), R(0), R(0), R(1)), (R(16), R(1), R(0), R(-1, 3)), (R(1), R(0), R(2), R(5, 2))]),
                                    ({"gamma": R(10, 7)}, [(R(1), R(0), R(0), R(0)), (R(32), R(0), R(0), R(14, 3))])]
        sets["Harvey_Tsoubelis"] += [({}, [(R(1, 3), ln(3), R(0), R(2)), (R(4), ln(R(1, 4)), R(1), R(1)), (R(5, 2), ln(R(2, 5)), R(-1), R(0))])]
        sets["Rosquist_Jantzen"] += [({"s": R(2, 5), "q": R(-1, 4), "k": R(1, 2), "m": R(3)}, [(R(1), R(0), R(0), R(0)), (R(1), ln(3), R(1), R(1))]),
                                     ({"s": R(1, 3), "q": R(1, 7), "k": R(3, 2), "m": R(2, 5)}, [(R(1), ln(R(1, 2)), R(0), R(0)), (R(1), ln(R(5, 4)), R(2), R(3))])]
        sets["EdS"] += [({"t_today": R(1)}, [(R(64), R(0), R(0), R(0)), (R(1, 8), R(1), R(1), R(1)), (R(125, 27), R(0), R(0), R(0))]),
                        ({"t_today": R(3)}, [(R(3), R(0), R(0), R(0)), (R(24), R(1), R(0), R(0))])]
        sets["LCDM"] += [({"Om": R(16, 25), "H0": R(1)}, ["today"]), ({"Om": R(9, 25), "H0": R(2, 3)}, ["today"])]
    return sets


MODULES = {
    "Schwarzschild_isotropic": dict(metric=_schw, patch=_patch_schw, lam=None, matter="Tdown4", extra="Kretschmann"),
    "Conformally_flat": dict(metric=_conf, patch=_patch_conf, lam=None, matter="Tdown4"),
    "Non_diagonal": dict(metric=_nondiag, patch=_patch_nondiag, lam=None, matter="Tdown4"),
    "Collins_Stewart": dict(metric=_collins, patch=_patch_collins, lam=None, matter="fluid"),
    "Harvey_Tsoubelis": dict(metric=_harvey, patch=None, lam=None, matter="Tdown4"),
    "Rosquist_Jantzen": dict(metric=_rosquist, patch=_patch_rosquist, lam=None, matter="Tdown4"),
    "EdS": dict(metric=_eds, patch=_patch_eds, lam=None, matter="fluid_t"),
    "LCDM": dict(metric=_lcdm, patch=_patch_lcdm, lam=lambda P: 3 * (1 - P["Om"]) * P["H0"] ** 2, matter="dust_t"),
}
NOT_COVERED = {
    "Szekeres": "the metric contains the hypergeometric function 2F1(5/6, 3/2; 11/6; -sinh^2): no expansion point with rational jets",
    "ICPertFLRW": "first-order perturbative initial data, not an exact solution: Einstein's equations hold to first order only",
}


def load(name, params):
    mod = importlib.import_module("aurel.solutions." + name)
    mod = importlib.reload(mod)          # undo patches of an earlier use
    spec = MODULES[name]
    if spec["patch"]:
        spec["patch"](mod, params)
    return mod


def rationalize(v):
    """A sympy number known to be rational (evaluated to 60 digits) -> Fraction, or None."""
    import sympy as sp
    if v.is_Rational:
        return F(int(v.p), int(v.q))
    s = sp.nsimplify(v)
    if s.is_Rational:
        return F(int(s.p), int(s.q))
    s2 = sp.simplify(v)
    if s2.is_Rational:
        return F(int(s2.p), int(s2.q))
    f = sp.N(v, DIGITS)
    if not f.is_real:
        return None
    from mpmath import mp, mpf, identify
    mp.dps = DIGITS
    x = mpf(str(f))
    fr = F(str(f)).limit_denominator(10 ** 12)
    if abs(mpf(fr.numerator) / mpf(fr.denominator) - x) < mpf(10) ** (-(DIGITS - 15)):
        return fr
    return None


def jet_of(expr, syms, point):
    import sympy as sp
    expr = sp.sympify(expr)
    j = J.Jet()
    sub = {syms[k]: point[k] for k in range(4)}
    for m in J.MONS:
        d = expr
        for k in range(4):
            for _ in range(m[k]):
                d = sp.diff(d, syms[k])
        fr = rationalize(sp.sympify(d).subs(sub))
        if fr is None:
            raise ValueError(f"jet coefficient {m} of {expr} at {point} is not rational")
        fact = 1
        for k in range(4):
            for q in range(1, m[k] + 1):
                fact *= q
        j.c[m] = fr / fact
    return j


def make_cases(tier="quick"):
    """One oracle case per (module, parameter set, point)."""
    sp, syms = _sym()
    t, x, y, z = syms
    cases = []
    for name, psets in _param_sets(tier).items():
        spec = MODULES[name]
        n = 0
        for P, pts in psets:
            al, be, gam = spec["metric"](sp, t, x, y, z, P)
            lam = spec["lam"](P) if spec["lam"] else sp.Integer(0)
            for pt in pts:
                if pt == "today":
                    pt = (_lcdm_today(P), R(0), R(0), R(0))
                vec = [J.Jet.const(1)] * 3
                if spec.get("extra") == "Kretschmann":
                    # Schwarzschild: the outward unit normal of the coordinate spheres, s^i = x^i / (r psi^2); the oracle's covariant
                    # divergence of this test vector is the expansion of the outgoing null rays (K_ij = 0)
                    rr = sp.sqrt(x ** 2 + y ** 2 + z ** 2)
                    psi2 = (1 + P["M"] / (2 * rr)) ** 2
                    vec = [jet_of(ci / (rr * psi2), syms, pt) for ci in (x, y, z)]
                case = {"cls": name, "seed": n, "module": name, "point": pt, "params": P,
                        "alpha": jet_of(al, syms, pt), "beta": [jet_of(b, syms, pt) for b in be],
                        "gam": {k: jet_of(gam[k], syms, pt) for k in SYM}, "lam": F(int(lam.p), int(lam.q)),
                        "sd": F(1), "cr": F(1),       # roots of det(gamma) are not supplied: only root-free oracle fields are used
                        "phi": J.Jet.const(1), "vec": vec, "ten": [J.Jet.const(1)] * 9, "vec4": [J.Jet.const(1)] * 4}
                cases.append(case)
                n += 1
    return cases


def float_point(pt):
    import sympy as sp
    return tuple(float(sp.N(c, 30)) for c in pt)


def grid3(p0, h):
    """3x3x3 arrays around the spatial point."""
    ax = [np.array([p0[k] - h, p0[k], p0[k] + h]) for k in (1, 2, 3)]
    return np.meshgrid(*ax, indexing="ij")


def call(mod, fname, t, X, **kw):
    f = getattr(mod, fname)
    import inspect
    n = len([p for p in inspect.signature(f).parameters.values() if p.default is inspect._empty])
    return f(t) if n == 1 else f(t, *X, **kw)


def module_metric(mod, t, X):
    """(alpha, beta[3], gamma[3,3]) of the module on the arrays X at time t (defaults: unit lapse, zero shift)."""
    one = np.ones(X[0].shape)
    al = mod.alpha(t, *X) * one if hasattr(mod, "alpha") else one
    be = mod.betaup3(t, *X) if hasattr(mod, "betaup3") else np.zeros((3,) + X[0].shape)
    return al, be, mod.gammadown3(t, *X) * one
