"""Conformance of the Einstein Toolkit reader with spec/etsim (Chunks.tla, ETSim.tla)."""
import glob
import json
import multiprocessing as mp
import os
import shutil
import tempfile

import numpy as np

from . import gen_et as G
from .tlc import run_tlc, wrapper

LAYOUTS = [("onefile", "ungrouped"), ("onefile", "grouped"), ("proc", "ungrouped"), ("proc", "grouped")]
COMPONENTS = {"alpha": ["alp"], "betaup3": ["betax", "betay", "betaz"], "betax": ["betax"], "betay": ["betay"],
              "betaz": ["betaz"], "rho0": ["rho"], "velup3": ["vel[0]", "vel[1]", "vel[2]"], "velx": ["vel[0]"], "vely": ["vel[1]"],
              "velz": ["vel[2]"]}
AUREL_OF = {"alp": "alpha", "rho": "rho0", "vel[0]": "velx", "vel[1]": "vely", "vel[2]": "velz"}


def run_chunks(M, ghosts, cutopts, family, orders, simulate=None, seed=None):
    co = " @@ ".join(f"({n} :> {{" + ", ".join("{" + ", ".join(map(str, c)) + "}" for c in opts) + "})" for n, opts in cutopts.items())
    defs = {"M": f"<<{M[0]},{M[1]},{M[2]}>>", "Ghosts": "{" + ", ".join("<<%d, %d, %d>>" % G.g3(g) for g in ghosts) + "}", "CutOptions": co,
            "Orders": "{" + ", ".join(f'"{o}"' for o in orders) + "}"}
    name, text, cl = wrapper("Chunks", defs)
    cfg = f"""SPECIFICATION Spec
CONSTANTS
{cl}
  Family = "{family}"
  Emit = TRUE
INVARIANT Partition
INVARIANT NumbersArePermutation
INVARIANT NonEmpty
INVARIANT EmitDecomposition
"""
    kw = {}
    if simulate:
        kw = dict(simulate=f"num={simulate}", depth=64, seed=seed)
    return run_tlc(name, cfg, ["etsim"], extra_files={name + ".tla": text}, timeout=3000, **kw)


def sim_param(tmp, name):
    os.environ["SIMLOC"] = tmp + "/"
    import aurel
    return aurel.parameters(name)


def check_decomposition(job):
    """One Chunks state: join_chunks directly (two enumeration orders) and read_data on a generated directory."""
    dec, layout_idx, seq = job
    import aurel.reading as R
    M, g = tuple(dec["M"]), tuple(dec["ghost"])
    chunks = sorted(dec["chunks"], key=lambda c: c["c"])
    findings = []
    sigbase = {"nchunks": len(chunks) if len(chunks) < 4 else "4+", "family": dec["family"]}
    var, rnum, it, rl = "betay", 0, 8, 0
    E = G.extended(var, rnum, it, rl, M, g)
    want = G.truth(var, rnum, it, rl, M)
    supported = dec["family"] != "xouter"      # outside the nested z-y-x family: raise, or return exactly the interior grid
    for label, order in (("by chunk number", chunks),
                         ("by file name (decimal strings)", sorted(chunks, key=lambda c: str(c["c"])))):
        cut = {}
        for ch in order:
            p = G.piece(E, ch, g)
            cut[(ch["x"][0], ch["y"][0], ch["z"][0])] = G.strip(p, g)
        try:
            got = R.fixij(R.join_chunks(cut))
            ok = got.shape == want.shape and np.array_equal(got, want)
            err = None
        except Exception as ex:
            ok, err, got = (not supported), f"{type(ex).__name__}: {ex}", None
        if not ok:
            findings.append(({"clause": "JoinEqualsTruth" if supported else "UnsupportedLayoutRaises", **sigbase},
                             f"join_chunks of {len(chunks)} chunks ({dec['family']} decomposition, pieces enumerated {label}, order {dec['order']}) "
                             + (f"raised {err}" if err else f"returned shape {got.shape} / misplaced data, interior grid is {want.shape}"
                                + ("" if supported else " (a layout outside the supported family must raise)")),
                             {"decomposition": dec, "enumeration": label}))
            break
    # through the files
    layout = LAYOUTS[layout_idx % 4]
    if len(chunks) == 1:
        layout = ("onefile", layout[1])     # Carpet writes name.file_N.h5 only when there are several I/O processes
    tmp = tempfile.mkdtemp(prefix="vet_")
    try:
        name = "sim"
        G.make_sim(tmp + "/", name, [{"lo": 0, "hi": 8, "every": 8}], M=M, ghost=g, chunks=chunks, layout=layout,
                   nlev=1, xyz=(seq % 5 == 0), m0=(seq % 7 == 0))
        param = sim_param(tmp, name)
        try:
            d = R.read_data(param, it=[8, 0], vars=["betaup3", "alpha"], rl=0, split_per_it=False, verbose=False, skip_last=False)
            bad = None
            if list(d["it"]) != [0, 8]:
                bad = f"it column {list(d['it'])}"
            else:
                for n, i in enumerate([0, 8]):
                    for av, ev in (("alpha", "alp"), ("betax", "betax"), ("betay", "betay"), ("betaz", "betaz")):
                        w = G.truth(ev, 0, i, 0, M)
                        a = d.get(av, [None, None])[n]
                        if a is None or a.shape != w.shape or not np.array_equal(a, w):
                            bad = f"{av} at it={i}: shape {None if a is None else a.shape} vs {w.shape}" + (
                                "" if a is None or a.shape != w.shape else f", {int((a != w).sum())} misplaced points")
                            break
                    if bad:
                        break
                if not bad and list(d["t"]) != [G.time_of(0), G.time_of(8)]:
                    bad = f"t column {list(d['t'])}"
        except Exception as ex:
            bad = f"raised {type(ex).__name__}: {ex}"
        if bad and not supported and bad.startswith("raised"):
            bad = None          # raising is the reference behaviour for a layout outside the supported family
        if bad:
            findings.append(({"clause": "ReadEqualsTruth" if supported else "UnsupportedLayoutRaises", "layout": "-".join(layout), **sigbase},
                             f"read_data on a {'-'.join(layout)} directory with {len(chunks)} chunks (ghost {g}, order {dec['order']}): {bad}",
                             {"decomposition": dec, "layout": layout}))
    finally:
        shutil.rmtree(tmp, ignore_errors=True)
    return findings


def pmap(fn, jobs, procs=16):
    if len(jobs) < 8:
        return [fn(j) for j in jobs]
    with mp.get_context("fork").Pool(procs) as pool:
        return pool.map(fn, jobs, chunksize=max(1, len(jobs) // (procs * 8)))


# ---------------------------------------------------------------------------
def requests_tla(reqs):
    def seq(xs, f=str):
        return "<<" + ", ".join(f(x) for x in xs) + ">>"
    q = lambda s: '"' + s + '"'
    return "{" + ", ".join(f"[it |-> {seq(r['it'])}, vars |-> {seq(r['vars'], q)}, rl |-> {r['rl']}, restart |-> {r['restart'] if r['restart'] >= 0 else 'Minus1'}]"
                           for r in reqs) + "}"


DEFAULT_REQUESTS = [
    {"it": [0], "vars": ["alpha"], "rl": 0, "restart": -1},
    {"it": [8, 4], "vars": ["betaup3"], "rl": 0, "restart": -1},
    {"it": [8, 4, 8], "vars": ["betax", "alpha"], "rl": 0, "restart": -1},
    {"it": [4, 8, 12, 16], "vars": [], "rl": 0, "restart": -1},
    {"it": [16, 12], "vars": ["betaup3", "alpha"], "rl": 1, "restart": -1},
    {"it": [8], "vars": ["alpha"], "rl": 0, "restart": 0},
    {"it": [8, 12], "vars": ["betaz"], "rl": 0, "restart": 1},
    {"it": [0, 4, 8, 12, 16, 20, 24], "vars": ["betaup3"], "rl": 0, "restart": -1},
    {"it": [12, 4], "vars": ["velup3"], "rl": 0, "restart": -1},
    {"it": [8], "vars": ["vely", "alpha"], "rl": 0, "restart": -1},
]


def run_etsim(starts, lengths, strides, max_restarts, layouts, nlevels, requests=DEFAULT_REQUESTS, simulate=None, seed=None):
    defs = {"Starts": "{" + ",".join(map(str, starts)) + "}", "Lengths": "{" + ",".join(map(str, lengths)) + "}",
            "Strides": "{" + ",".join(map(str, strides)) + "}",
            "Layouts": "{" + ", ".join(f'<<"{a}", "{b}">>' for a, b in layouts) + "}",
            "NLevels": "{" + ",".join(map(str, nlevels)) + "}",
            "Requests": requests_tla(requests)}
    name, text, cl = wrapper("ETSim", defs)
    text = text.replace("EXTENDS ETSim\n", "EXTENDS ETSim\nMinus1 == 0 - 1\n")
    cfg = f"""SPECIFICATION Spec
CONSTANTS
{cl}
  MaxRestarts = {max_restarts}
  Emit = TRUE
INVARIANT LatestWins
INVARIANT EmitSim
"""
    kw = {}
    if simulate:
        kw = dict(simulate=f"num={simulate}", depth=max_restarts + 1, seed=seed)
    return run_tlc(name, cfg, ["etsim"], extra_files={name + ".tla": text}, timeout=3000, **kw)


TWO_CHUNKS = {0: None,
              1: lambda M: [{"c": 0, "x": [0, M[0]], "y": [0, 2], "z": [0, M[2]]}, {"c": 1, "x": [0, M[0]], "y": [2, M[1]], "z": [0, M[2]]}],
              2: lambda M: [{"c": 1, "x": [0, 1], "y": [0, M[1]], "z": [0, M[2]]}, {"c": 0, "x": [1, M[0]], "y": [0, M[1]], "z": [0, M[2]]}]}


SIM_GHOSTS = [1, 2, 3, (1, 2, 3), (2, 1, 1)]


def check_sim(job):
    """One ETSim state: generate the directory, run every admissible request with the real read_data."""
    st, seq = job
    import aurel.reading as R
    findings = []
    M = (3, 4, 3)
    layout = tuple(st["layout"])
    mk = TWO_CHUNKS[seq % 3] or (TWO_CHUNKS[1] if layout[0] == "proc" else None)
    chunks = mk(M) if mk else None
    tmp = tempfile.mkdtemp(prefix="vet_")
    try:
        name = "run_a" if seq % 2 else "bbh"
        restarts = [dict(r) for r in st["restarts"]]
        G.make_sim(tmp + "/", name, restarts, M=M, ghost=SIM_GHOSTS[seq % len(SIM_GHOSTS)], chunks=chunks, layout=layout, nlev=st["nlev"],
                   active_link=(seq % 2 == 0), variables=G.VARS_VEL)
        param = sim_param(tmp, name)
        for nrd, rd in enumerate(st["reads"]):
            q, res = rd["q"], rd["res"]
            sig_shape = {"restarts": len(restarts), "overlapping": bool(st["overlapping"]),
                         "strides": "mixed" if len({r["every"] for r in restarts}) > 1 else "same"}
            it_arg, vars_arg = list(q["it"]), list(q["vars"])
            # every other request goes through the default split_per_it=True path (which also files what it read in all_iterations/)
            split = (seq + nrd) % 2 == 1
            sig_shape["split_per_it"] = split
            kw = dict(it=it_arg, vars=vars_arg, rl=q["rl"], split_per_it=split, verbose=False, skip_last=False)
            if q["restart"] >= 0:
                kw["restart"] = q["restart"]
            try:
                d = R.read_data(param, **kw)
            except Exception as ex:
                findings.append(({"clause": "ReadReturns", "exc": type(ex).__name__, **sig_shape},
                                 f"read_data(it={q['it']}, vars={q['vars']}, rl={q['rl']}, restart={q['restart']}) raised "
                                 f"{type(ex).__name__}: {str(ex)[:150]} on restarts {restarts} ({'-'.join(layout)}); every requested iteration is "
                                 f"present (expected from restarts {res['from']})", {"state": st, "query": q}))
                continue
            if (it_arg, vars_arg) != (list(q["it"]), list(q["vars"])):
                findings.append(({"clause": "ArgsUntouched", "call": "read_data"},
                                 f"read_data modified its arguments it/vars: {q['it']}->{it_arg}, {q['vars']}->{vars_arg}", {"state": st, "query": q}))
            if [int(i) for i in d["it"]] != list(res["it"]):
                findings.append(({"clause": "OrderOfIterations", **sig_shape},
                                 f"read_data(it={q['it']}, ...) returned it={[int(i) for i in d['it']]}, expected {res['it']} on restarts {restarts}",
                                 {"state": st, "query": q}))
                continue
            want_vars = q["vars"] or ["alpha", "betaup3", "velup3"]
            comps = [c for v in want_vars for c in COMPONENTS[v]]
            keys = {AUREL_OF.get(c, c) for c in comps}
            if not keys <= set(d.keys()) - {"it", "t"}:    # extra columns (the rest of a file group) are not an error
                findings.append(({"clause": "NamesTranslated"},
                                 f"read_data(vars={q['vars']}) returned keys {sorted(set(d.keys()) - {'it', 't'})}, expected {sorted(keys)}",
                                 {"state": st, "query": q}))
                continue
            bad = None
            for n, (i, r) in enumerate(zip(res["it"], res["from"])):
                if d["t"][n] != G.time_of(i):
                    bad = f"t[{n}] = {d['t'][n]} for it={i} (written time {G.time_of(i)})"
                    break
                for c in comps:
                    a = d[AUREL_OF.get(c, c)][n]
                    w = G.truth(c, r, i, q["rl"], M)
                    if a is None or a.shape != w.shape or not np.array_equal(a, w):
                        src = None
                        if a is not None and a.shape == w.shape:
                            for r2 in range(len(restarts)):
                                for rl2 in range(st["nlev"]):
                                    for i2 in range(0, 40):
                                        for c2 in G.VARS_VEL:
                                            if np.array_equal(a, G.truth(c2, r2, i2, rl2, M)):
                                                src = (c2, r2, i2, rl2)
                        bad = (f"{AUREL_OF.get(c, c)} at it={i}, rl={q['rl']} should come from restart {r}; "
                               + (f"got the data of (var, restart, it, rl) = {src}" if src else "got something else"))
                        sig_shape["kind"] = "wrong-restart" if src and src[1] != r else "wrong-data"
                        break
                if bad:
                    break
            if bad:
                findings.append(({"clause": "ReadEqualsTruth", **sig_shape},
                                 f"read_data(it={q['it']}, vars={q['vars']}, rl={q['rl']}, restart={q['restart']}, split_per_it={split}) on restarts {restarts} "
                                 f"({'-'.join(layout)}): {bad}", {"state": st, "query": q}))
    finally:
        shutil.rmtree(tmp, ignore_errors=True)
    return findings


# ---------------------------------------------------------------------------
# C12: the per-iteration read cache
CACHE_RESTARTS = [{"lo": 0, "hi": 12, "every": 4}, {"lo": 12, "hi": 20, "every": 4}]
CACHE_NAMES = {"alpha": ["alp"], "betax": ["betax"], "betay": ["betay"], "betaz": ["betaz"], "betaup3": ["betax", "betay", "betaz"]}
CACHE_QUERIES = [
    {"it": i, "names": v, "rl": rl, "split": sp}
    for i in ([4], [8], [4, 8], [0, 4, 8, 12], [12, 8], [16, 4, 8])
    for v in (["betax"], ["betaup3"], ["alpha"], ["betay", "alpha"], ["betaup3", "betax"])
    for rl in (0, 1) for sp in (True, False)
]


def cache_serving(i):
    return max(k for k, r in enumerate(CACHE_RESTARTS) if r["lo"] <= i <= r["hi"] and i % r["every"] == 0)


def run_readcache(max_reads, queries=None, simulate=None, seed=None):
    queries = queries or CACHE_QUERIES
    q = lambda s: '"' + s + '"'
    seq = lambda xs, f=str: "<<" + ", ".join(f(x) for x in xs) + ">>"
    defs = {"Restarts": seq([f"[lo |-> {r['lo']}, hi |-> {r['hi']}, every |-> {r['every']}]" for r in CACHE_RESTARTS]),
            "Queries": "{" + ", ".join(f"[it |-> {seq(x['it'])}, names |-> {seq(x['names'], q)}, rl |-> {x['rl']}, split |-> {'TRUE' if x['split'] else 'FALSE'}]"
                                       for x in queries) + "}",
            "Components": "[" + ", ".join(f"{n} |-> {{" + ", ".join(q(v) for v in vs) + "}" for n, vs in CACHE_NAMES.items()) + "]"}
    name, text, cl = wrapper("ReadCache", defs)
    cfg = f"""SPECIFICATION Spec
CONSTANTS
{cl}
  NLev = 2
  MaxReads = {max_reads}
  Emit = TRUE
INVARIANT CacheWellFiled
INVARIANT EmitState
PROPERTY CacheOnlyGrows
PROPERTY UncachedReadsLeaveNoTrace
"""
    kw = {}
    if simulate:
        kw = dict(simulate=f"num={simulate}", depth=max_reads + 1, seed=seed)
    return run_tlc(name, cfg, ["etsim"], extra_files={name + ".tla": text}, timeout=3000, **kw)


def decode_cache(root, name, M, nrestarts):
    """All datasets of all cache files -> list of (restart, it, var, rl, status, detail)."""
    import glob
    import h5py
    out = []
    for r in range(nrestarts):
        d = os.path.join(root, name, f"output-{r:04d}", name, "all_iterations")
        for fn in sorted(glob.glob(os.path.join(d, "it_*.hdf5"))):
            i = int(os.path.basename(fn)[3:-5])
            with h5py.File(fn, "r") as f:
                for key in f.keys():
                    v, rl = key.rsplit(" rl=", 1)
                    rl = int(rl)
                    a = np.array(f[key])
                    if v == "it":
                        out.append((r, i, v, rl, "ok" if int(a) == i else "wrong", int(a)))
                    elif v == "t":
                        out.append((r, i, v, rl, "ok" if float(a) == G.time_of(i) else "wrong", float(a)))
                    else:
                        ev = {"alpha": "alp", "rho0": "rho"}.get(v, v)
                        w = G.truth(ev, r, i, rl, M) if ev in G.GROUPS else None
                        ok = w is not None and a.shape == w.shape and np.array_equal(a, w)
                        detail = None
                        if not ok and a.shape == tuple(M):
                            for r2 in range(nrestarts):
                                for rl2 in range(2):
                                    for i2 in range(0, 24, 4):
                                        for c2 in G.VARS_DEFAULT:
                                            if np.array_equal(a, G.truth(c2, r2, i2, rl2, M)):
                                                detail = {"holds_var": c2, "restart": r2, "it": i2, "rl": rl2}
                        out.append((r, i, v, rl, "ok" if ok else "wrong", detail))
    return out


def check_cache_history(job):
    """One ReadCache behaviour prefix: replay the reads on a fresh directory, decode the cache after every call."""
    recs, layout_idx = job           # recs: list of records (one per prefix length) of the same behaviour, sorted by length
    import aurel.reading as R
    findings = []
    M = (3, 4, 3)
    layout = LAYOUTS[layout_idx % 4]
    chunks = TWO_CHUNKS[1](M)
    tmp = tempfile.mkdtemp(prefix="vrc_")
    try:
        name = "sim"
        G.make_sim(tmp + "/", name, CACHE_RESTARTS, M=M, ghost=2, chunks=chunks, layout=layout, nlev=2, active_link=(layout_idx % 2 == 0))
        param = sim_param(tmp, name)
        full = recs[-1]["hist"]
        by_len = {len(r["hist"]): r for r in recs}
        for n, q in enumerate(full, start=1):
            comps = sorted({c for nm in q["names"] for c in CACHE_NAMES[nm]})
            vars_arg = list(q["names"])
            it_arg = list(q["it"])
            hist_txt = "; ".join(f"read(it={x['it']}, vars={x['names']}, rl={x['rl']}, split_per_it={x['split']})" for x in full[:n])
            try:
                d = R.read_data(param, it=it_arg, vars=vars_arg, rl=q["rl"], split_per_it=q["split"], verbose=False, skip_last=False)
            except Exception as ex:
                findings.append(({"clause": "ReadReturnsTruth", "kind": "raises", "exc": type(ex).__name__, "layout": layout[1]},
                                 f"{hist_txt} ({'-'.join(layout)}): the last call raised {type(ex).__name__}: {str(ex)[:160]}",
                                 {"hist": full[:n], "layout": layout}))
                break
            rec = by_len.get(n)
            its = sorted(set(q["it"]))
            bad = None
            if [int(i) for i in d["it"]] != its:
                bad = f"it column {list(d['it'])}"
            else:
                for k, i in enumerate(its):
                    r = cache_serving(i)
                    if d["t"][k] is None or float(d["t"][k]) != G.time_of(i):
                        bad = f"t at it={i} is {d['t'][k]}"
                        break
                    for c in comps:
                        a = d[AUREL_OF.get(c, c)][k]
                        w = G.truth(c, r, i, q["rl"], M)
                        if a is None or np.shape(a) != w.shape or not np.array_equal(a, w):
                            bad = f"{AUREL_OF.get(c, c)} at it={i} rl={q['rl']} is not the stored data of restart {r}"
                            break
                    if bad:
                        break
            if bad:
                findings.append(({"clause": "ReadReturnsTruth", "kind": "value", "layout": layout[1], "nreads": min(n, 3)},
                                 f"{hist_txt} ({'-'.join(layout)}): the last call returned wrong data: {bad}",
                                 {"hist": full[:n], "layout": layout}))
            cache = decode_cache(tmp, name, M, len(CACHE_RESTARTS))
            wrong = [c for c in cache if c[4] != "ok"]
            if wrong:
                findings.append(({"clause": "CacheEntrySound", "layout": layout[1]},
                                 f"{hist_txt} ({'-'.join(layout)}): cache dataset(s) do not hold the data they are filed under "
                                 f"(restart, it, var, rl, what it holds): {[(c[0], c[1], c[2], c[3], c[5]) for c in wrong[:3]]}",
                                 {"hist": full[:n], "layout": layout}))
                break
            if rec is not None:
                model = {(e["r"], e["i"], AUREL_OF.get(e["v"], e["v"]), e["rl"]) for e in rec["cache"]}
                real = {(c[0], c[1], c[2], c[3]) for c in cache if c[2] not in ("it", "t")}
                if not model <= real:
                    findings.append(({"drift": True}, f"{hist_txt}: cache lacks entries the model expects: {sorted(model - real)[:4]}", None))
    finally:
        shutil.rmtree(tmp, ignore_errors=True)
    return findings


# ---------------------------------------------------------------------------
# C18: catalogues
CAT_SHAPES = [
    {"len0": 2, "every0": 4, "every1": 2, "chk": [0, 6]},
    {"len0": 0, "every0": 4, "every1": 4, "chk": []},        # a single output iteration
    {"len0": 3, "every0": 2, "every1": 2, "chk": [2]},
]
CAT_NAMES = ["bbh", "my_restart_run", "arange_rl"]


CAT_VARSETS = [["Bvec[0]", "Bvec[1]", "Bvec[2]", "bar", "foo"], ["bar", "baz", "foo"]]


def run_catalogue(max_restarts, max_calls, names=None, layouts=None, simulate=None, seed=None, shapes=None, nlevels=(1, 2)):
    shapes = shapes or CAT_SHAPES
    names = names or CAT_NAMES
    layouts = layouts or LAYOUTS
    sh = "{" + ", ".join(f"[len0 |-> {s['len0']}, every0 |-> {s['every0']}, every1 |-> {s['every1']}, chk |-> {{" + ",".join(map(str, s["chk"])) + "}]" for s in shapes) + "}"
    defs = {"Shapes": sh, "Names": "{" + ", ".join(f'"{n}"' for n in names) + "}",
            "Layouts": "{" + ", ".join(f'<<"{a}", "{b}">>' for a, b in layouts) + "}",
            "NLevels": "{" + ", ".join(map(str, nlevels)) + "}",
            "VarSets": "<<" + ", ".join("{" + ", ".join(f'"{v}"' for v in vs) + "}" for vs in CAT_VARSETS) + ">>"}
    name, text, cl = wrapper("Catalogue", defs)
    cfg = f"""SPECIFICATION Spec
CONSTANTS
{cl}
  MaxRestarts = {max_restarts}
  MaxCalls = {max_calls}
  Emit = TRUE
INVARIANT NoDuplicateRecords
INVARIANT RecordsExist
INVARIANT IncrementalEqualsFresh
INVARIANT EmitState
PROPERTY RecordsAppendOnly
"""
    kw = {}
    if simulate:
        kw = dict(simulate=f"num={simulate}", depth=max_calls + 1, seed=seed)
    return run_tlc(name, cfg, ["etsim"], extra_files={name + ".tla": text}, timeout=3000, **kw)


def _norm(x):
    """iterations()/read_iterations() results by value (numpy ints, arrays, lists)."""
    if isinstance(x, dict):
        return {(_norm(k) if not isinstance(k, str) else k): _norm(v) for k, v in x.items()}
    if isinstance(x, (list, tuple, np.ndarray)):
        return [_norm(v) for v in x]
    if isinstance(x, (np.integer,)):
        return int(x)
    return x


def _seq(x):
    if isinstance(x, dict):
        return [x[k] for k in sorted(x, key=lambda s: int(s))]
    return list(x)


def _by_level(x, levels):
    """A TLA+ function over the written levels (JSON object keyed by level, or array when the levels are 0 .. n-1)."""
    if isinstance(x, dict):
        return {int(k): v for k, v in x.items()}
    return dict(zip(sorted(levels), x))


def expand(segments):
    out = set()
    for s in segments:
        s = [int(v) for v in s]
        if len(s) == 1:
            out.add(s[0])
        else:
            out |= set(range(s[0], s[1] + 1, s[2]))
    return out


def check_catalogue(job):
    st, seq = job
    import aurel.reading as R
    findings = []
    M = (3, 3, 3)
    layout = tuple(st["layout"])
    name = st["name"]
    nlev = st["nlev"]
    # two components on level 0; in odd restarts the finer levels have a single component (Carpet splits every level on its own)
    chunks = TWO_CHUNKS[1]((3, 4, 3))
    M = (3, 4, 3)
    restarts = _seq(st["restarts"])
    scans = _seq(st["scan"])
    tmp = tempfile.mkdtemp(prefix="vcat_")
    sig0 = {"name_class": "plain" if name == "bbh" else name}

    def add_restart(k):
        r = restarts[k]
        # gen_et writes multiples of `every` in lo..hi for every level with the same stride; levels differ here:
        G_make(tmp, name, k, r, M, chunks, layout, nlev, levels=sorted(st.get("levels", range(nlev))))
        if seq % 2 == 0:
            # simfactory keeps a link "output-NNNN-active" to the restart that is running: it is not a restart
            for old in glob.glob(os.path.join(tmp, name, "output-*-active")):
                os.unlink(old)
            os.symlink(f"output-{k:04d}", os.path.join(tmp, name, f"output-{k:04d}-active"))

    def hist_txt(n):
        out = []
        for h in st["hist"][:n]:
            if h["op"] == "run":
                out.append("new restart")
            elif h["op"] == "iterations":
                out.append(f"iterations(skip_last={h['skip']})")
            elif h["op"] == "get_content":
                out.append(f"get_content(restart={h['restart']}, overwrite={h['overwrite']})")
            else:
                out.append("read_iterations()")
        return "; ".join(out)

    try:
        nres = 1
        add_restart(0)
        param = sim_param(tmp, name)
        recorded = []
        for n, h in enumerate(st["hist"], start=1):
            where = f"sim {name!r} ({'-'.join(layout)}, {nlev} level(s)), after: {hist_txt(n)}"
            if h["op"] == "run":
                add_restart(nres)
                nres += 1
                continue
            existing = list(range(nres))
            if h["op"] in ("iterations", "read_iterations"):
                skip = h.get("skip", True)
                try:
                    if h["op"] == "iterations":
                        got = R.iterations(param, skip_last=skip, verbose=False)
                    else:
                        got = R.read_iterations(param, verbose=False)
                    raised = None
                except ImportError as ex:
                    raised = "ImportError"
                except Exception as ex:
                    raised = type(ex).__name__ + ": " + str(ex)[:120]
                file_existed = any(x["op"] in ("iterations", "read_iterations") for x in st["hist"][:n - 1])
                if h["op"] == "iterations" or not file_existed:
                    todo = [r for r in (existing[:-1] if skip else existing) if r not in recorded]
                    recorded = recorded + todo
                if raised:
                    if not (h["raises"] and raised == "ImportError"):
                        findings.append(({"clause": "CatalogueReturns", "exc": raised.split(":")[0], **sig0},
                                         f"{where}: the last call raised {raised}", {"state": st, "step": n}))
                        break
                    continue
                if h["raises"]:
                    continue    # nothing to process: raising is the documented answer, returning {} is tolerated
                got = _norm(got)
                overall = got.pop("overall", None)
                if sorted(k for k in got if k != "overall") != sorted(recorded):
                    findings.append(({"clause": "CatalogueFaithful", "kind": "restarts", **sig0},
                                     f"{where}: catalogue lists restarts {sorted(got)}, on disk (and processed) are {sorted(recorded)}",
                                     {"state": st, "step": n}))
                    break
                bad = None
                for r in recorded:
                    sc = scans[r]
                    g = got[r]
                    if g.get("its available") != list(sc["its"]):
                        bad = f"restart {r}: 'its available' = {g.get('its available')}, on disk {list(sc['its'])}"
                    levels = sorted(st.get("levels", range(nlev)))
                    for l, want in _by_level(sc["rl"], levels).items():
                        if g.get(f"rl = {l}") != list(want):
                            bad = f"restart {r}: 'rl = {l}' = {g.get(f'rl = {l}')}, on disk {list(want)}"
                    if sorted(g.get("checkpoints", [])) != sorted(sc["chk"]):
                        bad = f"restart {r}: checkpoints {g.get('checkpoints')}, on disk {sorted(sc['chk'])}"
                    if sorted(g.get("var available", [])) != sorted(sc["vars"]):
                        bad = f"restart {r}: variables {g.get('var available')}, on disk {sorted(sc['vars'])}"
                    if bad:
                        break
                if bad:
                    findings.append(({"clause": "CatalogueFaithful", "kind": bad.split(":")[1].split("=")[0].strip()[:20], **sig0},
                                     f"{where}: {bad}", {"state": st, "step": n}))
                    break
                if h["op"] == "iterations":
                    allits = _seq(st["allits"]) if n == len(st["hist"]) else None
                    if allits is not None and overall is not None:
                        for l, want in _by_level(st["allits"], sorted(st.get("levels", range(nlev)))).items():
                            segs = overall.get(f"rl = {l}", [])
                            if expand(segs) != set(want):
                                findings.append(({"clause": "OverallIsUnion", **sig0},
                                                 f"{where}: overall 'rl = {l}' = {segs} covers {sorted(expand(segs))}, the restarts hold {sorted(want)}",
                                                 {"state": st, "step": n}))
                    # the file parses back to what was returned, and repeating the call changes nothing
                    try:
                        back = _norm(R.read_iterations(param, verbose=False))
                    except Exception as ex:
                        findings.append(({"clause": "FileParsesBack", "exc": type(ex).__name__, **sig0},
                                         f"{where}: read_iterations() on the file just written raised {type(ex).__name__}: {str(ex)[:120]}",
                                         {"state": st, "step": n}))
                        break
                    if back != got:
                        diff = [r for r in got if back.get(r) != got[r]]
                        findings.append(({"clause": "FileParsesBack", **sig0},
                                         f"{where}: iterations.txt parses back differently for restart(s) {diff}: {back.get(diff[0]) if diff else back} "
                                         f"vs returned {got.get(diff[0]) if diff else got}", {"state": st, "step": n}))
                        break
                    try:
                        again = _norm(R.iterations(param, skip_last=skip, verbose=False))
                    except Exception as ex:
                        findings.append(({"clause": "RepeatIsIdentity", "call": "iterations", "exc": type(ex).__name__, **sig0},
                                         f"{where}: repeating the call raised {type(ex).__name__}: {str(ex)[:120]}", {"state": st, "step": n}))
                        break
                    again.pop("overall", None)
                    if again != got:
                        findings.append(({"clause": "RepeatIsIdentity", "call": "iterations", **sig0},
                                         f"{where}: repeating the call returns something else", {"state": st, "step": n}))
                        break
            else:
                r = h["restart"]
                d = os.path.join(tmp, name, f"output-{r:04d}", name) + "/"
                try:
                    got = R.get_content(param, restart=r, overwrite=h["overwrite"], verbose=False)
                except Exception as ex:
                    findings.append(({"clause": "CatalogueReturns", "exc": type(ex).__name__, "call": "get_content", **sig0},
                                     f"{where}: get_content raised {type(ex).__name__}: {ex}", {"state": st, "step": n}))
                    break
                want = expected_content(d, layout, chunks, r)
                gotn = {tuple(k): sorted(v) for k, v in got.items()}
                if gotn != want:
                    findings.append(({"clause": "ContentFaithful", **sig0},
                                     f"{where}: get_content returned {sorted(gotn)}, on disk {sorted(want)} (or file lists differ)",
                                     {"state": st, "step": n}))
                    break
                with open(d + "content.txt") as fh:
                    back = {tuple(k.split(",")): sorted(v) for k, v in json.load(fh).items()}
                again = {tuple(k): sorted(v) for k, v in R.get_content(param, restart=r, verbose=False).items()}
                if back != gotn or again != gotn:
                    findings.append(({"clause": "FileParsesBack", "call": "get_content", **sig0},
                                     f"{where}: content.txt / a repeated call differ from what was returned", {"state": st, "step": n}))
                    break
        else:
            # incremental cataloguing ends where one fresh scan ends
            try:
                inc = _norm(R.iterations(param, skip_last=False, verbose=False))
                fresh_root = tempfile.mkdtemp(prefix="vcatf_")
                try:
                    shutil.copytree(os.path.join(tmp, name), os.path.join(fresh_root, name),
                                    ignore=shutil.ignore_patterns("iterations.txt", "content.txt"))
                    fparam = dict(param)
                    fparam["simpath"] = fresh_root + "/"
                    fresh = _norm(R.iterations(fparam, skip_last=False, verbose=False))
                finally:
                    shutil.rmtree(fresh_root, ignore_errors=True)
                if inc != fresh:
                    diff = [k for k in fresh if inc.get(k) != fresh[k]]
                    findings.append(({"clause": "IncrementalEqualsFresh", **sig0},
                                     f"sim {name!r} ({'-'.join(layout)}), after: {hist_txt(len(st['hist']))}; iterations(skip_last=False): incremental "
                                     f"catalogue differs from a fresh scan at {diff}: {inc.get(diff[0]) if diff else ''} vs {fresh.get(diff[0]) if diff else ''}",
                                     {"state": st}))
            except Exception as ex:
                findings.append(({"clause": "CatalogueReturns", "exc": type(ex).__name__, "final": True, **sig0},
                                 f"sim {name!r}, after: {hist_txt(len(st['hist']))}; final iterations(skip_last=False) raised {type(ex).__name__}: {str(ex)[:150]}",
                                 {"state": st}))
    finally:
        shutil.rmtree(tmp, ignore_errors=True)
    return findings


def G_make(tmp, name, k, r, M, chunks, layout, nlev, levels=None):
    """Write restart number k with level-dependent strides (level 0: every0, level 1: every1)."""
    import h5py
    d = os.path.join(tmp, name, f"output-{k:04d}", name)
    os.makedirs(d, exist_ok=True)
    if k == 0:
        G.write_par(os.path.join(tmp, name, "output-0000", name + ".par"), M, nlev=max(2, nlev))
    chunks = chunks or G.one_chunk(M)
    handles = {}
    for var in G.VARS_DEFAULT + extra_vars(k):
        thorn, group = G.GROUPS[var]
        for rl in (levels if levels is not None else range(nlev)):
            every = r["every0"] if rl == 0 else r["every1"]
            for it in range(r["lo"], r["hi"] + 1):
                if it % every:
                    continue
                E = G.extended(var, k, it, rl, M, 1)
                lev_chunks = chunks if (rl == 0 or k % 2 == 0) else G.one_chunk(M)
                for ch in lev_chunks:
                    base = group if layout[1] == "grouped" else var
                    fn = os.path.join(d, base + (f".file_{ch['c']}" if layout[0] == "proc" else "") + ".h5")
                    if fn not in handles:
                        handles[fn] = h5py.File(fn, "w")
                        handles[fn].create_group("Parameters and Global Attributes")
                    key = f"{thorn}::{var} it={it} tl=0 rl={rl}" + (f" c={ch['c']}" if (len(lev_chunks) > 1 or layout[0] == "proc") else "")
                    ds = handles[fn].create_dataset(key, data=G.piece(E, ch, 1))
                    ds.attrs["cctk_nghostzones"] = np.array([1, 1, 1], dtype=np.int32)
                    ds.attrs["iorigin"] = np.array([ch["x"][0], ch["y"][0], ch["z"][0]], dtype=np.int32)
                    ds.attrs["time"] = np.float64(G.time_of(it))
    for h in handles.values():
        h.close()
    for c in r["chk"]:
        open(os.path.join(d, f"checkpoint.chkpt.it_{c}.h5"), "w").close()


def extra_vars(k):
    """Variables of a thorn aurel does not know; the set written differs between restarts."""
    return list(CAT_VARSETS[k % len(CAT_VARSETS)])


def expected_content(d, layout, chunks, k=0):
    nch = len(chunks) if chunks else 1
    suffixes = [f".file_{c}" for c in range(nch)] if layout[0] == "proc" else [""]
    if layout[1] == "grouped":
        return {("alp",): sorted(d + "admbase-lapse" + s + ".h5" for s in suffixes),
                ("betax", "betay", "betaz"): sorted(d + "admbase-shift" + s + ".h5" for s in suffixes),
                **{tuple(sorted(v for v in extra_vars(k) if G.GROUPS[v][1] == grp)): sorted(d + grp + s + ".h5" for s in suffixes)
                   for grp in sorted({G.GROUPS[v][1] for v in extra_vars(k)})}}
    return {(v,): sorted(d + v + s + ".h5" for s in suffixes) for v in G.VARS_DEFAULT + extra_vars(k)}
