--------------------------------- MODULE Jet ---------------------------------
(* Truncated Taylor algebra: a field near the probe point is its Taylor      *)
(* polynomial of total degree <= 2 in the four coordinates (t, x, y, z),     *)
(* with coefficients in F_P.  A jet is a function Mons -> 0..P-1 where a     *)
(* monomial is its exponent tuple <<a, b, c, d>>.  Differentiation lowers    *)
(* the order to which a jet is accurate by one; the geometry modules never   *)
(* use more derivatives than the order allows (values after two              *)
(* derivatives).                                                             *)
EXTENDS Fp, Sequences, FiniteSets

Mons == {m \in (0 .. 2) \X (0 .. 2) \X (0 .. 2) \X (0 .. 2) : m[1] + m[2] + m[3] + m[4] <= 2}
M0   == <<0, 0, 0, 0>>
Unit(k) == [i \in 1 .. 4 |-> IF i = k THEN 1 ELSE 0]
Plus(m, n)  == <<m[1] + n[1], m[2] + n[2], m[3] + n[3], m[4] + n[4]>>
Minus(m, n) == <<m[1] - n[1], m[2] - n[2], m[3] - n[3], m[4] - n[4]>>
Leq(n, m)   == n[1] <= m[1] /\ n[2] <= m[2] /\ n[3] <= m[3] /\ n[4] <= m[4]
JZero      == [m \in Mons |-> 0]
JConst(c)  == [m \in Mons |-> IF m = M0 THEN c ELSE 0]
JVal(f)    == f[M0]
JAdd(f, g) == [m \in Mons |-> Ad(f[m], g[m])]
JSub(f, g) == [m \in Mons |-> Sb(f[m], g[m])]
JNeg(f)    == [m \in Mons |-> Ng(f[m])]
JScale(c, f) == [m \in Mons |-> Mu(c, f[m])]

(* truncated product: the coefficient of m collects f[m1] g[m2] over m1 + m2 = m; written out by degree *)
Deg(m) == m[1] + m[2] + m[3] + m[4]
K1(m)  == CHOOSE k \in 1 .. 4 : m[k] > 0 /\ \A j \in 1 .. k - 1 : m[j] = 0          \* first variable of m
K2(m)  == IF m[K1(m)] = 2 THEN K1(m) ELSE CHOOSE k \in 1 .. 4 : k > K1(m) /\ m[k] > 0   \* the other one (degree 2)
E(k)   == <<IF k = 1 THEN 1 ELSE 0, IF k = 2 THEN 1 ELSE 0, IF k = 3 THEN 1 ELSE 0, IF k = 4 THEN 1 ELSE 0>>
JMul(f, g) ==
    [m \in Mons |->
        IF Deg(m) = 0 THEN Mu(f[M0], g[M0])
        ELSE IF Deg(m) = 1 THEN Ad(Mu(f[M0], g[m]), Mu(f[m], g[M0]))
        ELSE LET a == E(K1(m)) b == E(K2(m))
             IN  Ad(Ad(Mu(f[M0], g[m]), Mu(f[m], g[M0])),
                    IF K1(m) = K2(m) THEN Mu(f[a], g[a]) ELSE Ad(Mu(f[a], g[b]), Mu(f[b], g[a])))]

(* 1/f for f with invertible constant term: (1/f0) (1 - u + u^2), u = f/f0 - 1 (u^3 is beyond the truncation) *)
JInv(f) == LET i0 == Inv(f[M0])
               u  == [m \in Mons |-> IF m = M0 THEN 0 ELSE Mu(i0, f[m])]
               u2 == JMul(u, u)
           IN  JScale(i0, JAdd(JSub(JConst(1), u), u2))
(* f^(-1/3) when the cube root c of the constant term is known: c^-1 (1 - u/3 + 2 u^2/9) *)
JPowM13(f, c) == LET i0 == Inv(f[M0])
                     u  == [m \in Mons |-> IF m = M0 THEN 0 ELSE Mu(i0, f[m])]
                     u2 == JMul(u, u)
                 IN  JScale(Inv(c), JAdd(JSub(JConst(1), JScale(Inv(3), u)), JScale(Dv(2, 9), u2)))
(* derivative with respect to coordinate k (1 = t, 2 = x, 3 = y, 4 = z) *)
JD(k, f) == [m \in Mons |-> IF Plus(m, Unit(k)) \in Mons THEN Mu(m[k] + 1, f[Plus(m, Unit(k))]) ELSE 0]
(* sums of jets over an index sequence *)
RECURSIVE JSumSeq(_)
JSumSeq(s) == IF s = << >> THEN JZero ELSE JAdd(Head(s), JSumSeq(Tail(s)))
RECURSIVE SumSeq(_)
SumSeq(s) == IF s = << >> THEN 0 ELSE Ad(Head(s), SumSeq(Tail(s)))
=============================================================================
