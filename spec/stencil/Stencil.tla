------------------------------ MODULE Stencil ------------------------------
(* Finite-difference first-derivative operators of aurel.finitedifference  *)
(* as exact linear forms (property C07).                                   *)
(*                                                                         *)
(* Nothing is copied from a table: the weights are Lagrange's formula on   *)
(* integer nodes, in exact rationals.  Row(p, mode, N, i) is the linear    *)
(* form  f |-> (d f)[i] * h  on N samples: Row[j] is the coefficient of    *)
(* sample j (j in 0..N-1).  The state graph enumerates every               *)
(* (order, mode, N, i); the conformance harness compares every state with  *)
(* the complete operator matrix of the real code.                          *)
EXTENDS Integers, Sequences, FiniteSets, Rat, TLC, Json

CONSTANTS Orders,      \* subset of {2,4,6,8}
          Modes,       \* subset of {"onesided","periodic","symmetric"}
          NExtra,      \* explore N from MinN(p,mode) .. MinN + NExtra
          Emit         \* BOOLEAN: print one JSON record per state

VARIABLES p, mode, N, i
vars == <<p, mode, N, i>>

Half(q) == q \div 2

(* minimum size for which the scheme is defined *)
MinN(q, m) == CASE m = "onesided"  -> (3 * q) \div 2
                [] m = "periodic"  -> Half(q)
                [] m = "symmetric" -> Half(q) + 1

-----------------------------------------------------------------------------
(* Lagrange weights for the first derivative at node 0 on node set S *)
RECURSIVE ProdNeg(_)
ProdNeg(S) == IF S = {} THEN 1 ELSE LET m == CHOOSE x \in S : TRUE IN (0 - m) * ProdNeg(S \ {m})
RECURSIVE ProdDiff(_, _)
ProdDiff(k, S) == IF S = {} THEN 1 ELSE LET m == CHOOSE x \in S : TRUE IN (k - m) * ProdDiff(k, S \ {m})
RECURSIVE SumOver(_, _, _)
SumOver(S, k, T) == \* sum over j in T of prod_{m in S \ {k, j}} (-m)
    IF T = {} THEN 0 ELSE LET j == CHOOSE x \in T : TRUE IN ProdNeg(S \ {k, j}) + SumOver(S, k, T \ {j})

W(S, k) == RNorm(SumOver(S, k, S \ {k}), ProdDiff(k, S \ {k}))

Nodes(kind, q) == CASE kind = "fwd" -> 0 .. q
                    [] kind = "bwd" -> (0 - q) .. 0
                    [] kind = "ctr" -> (0 - Half(q)) .. Half(q)

-----------------------------------------------------------------------------
(* where does offset k from output sample ii land? *)
Mod(a, n) == ((a % n) + n) % n
RECURSIVE Mirror(_, _)
Mirror(j, n) == IF n = 1 THEN 0
                ELSE IF j < 0 THEN Mirror(0 - j, n)
                ELSE IF j > n - 1 THEN Mirror(2 * (n - 1) - j, n)
                ELSE j

Kind(q, m, n, ii) == IF m # "onesided" THEN "ctr"
                     ELSE IF ii < Half(q) THEN "fwd"
                     ELSE IF ii >= n - Half(q) THEN "bwd"
                     ELSE "ctr"

Land(m, n, j) == CASE m = "onesided"  -> j
                   [] m = "periodic"  -> Mod(j, n)
                   [] m = "symmetric" -> Mirror(j, n)

RECURSIVE Acc(_, _, _, _, _, _)
Acc(S, T, m, n, ii, j) == \* sum of weights of offsets in T that land on sample j
    IF T = {} THEN RZero
    ELSE LET k == CHOOSE x \in T : TRUE
         IN  RAdd(IF Land(m, n, ii + k) = j THEN W(S, k) ELSE RZero, Acc(S, T \ {k}, m, n, ii, j))

Row(q, m, n, ii) == LET S == Nodes(Kind(q, m, n, ii), q)
                    IN  [j \in 0 .. n - 1 |-> Acc(S, S, m, n, ii, j)]

-----------------------------------------------------------------------------
Init == /\ p \in Orders /\ mode \in Modes
        /\ N \in MinN(p, mode) .. MinN(p, mode) + NExtra
        /\ i = 0
Next == /\ i < N - 1 /\ i' = i + 1 /\ UNCHANGED <<p, mode, N>>
Spec == Init /\ [][Next]_vars

R == Row(p, mode, N, i)

-----------------------------------------------------------------------------
(* Properties of the specification itself (the oracle is validated against *)
(* facts it was not written from).                                         *)

(* binomial basis B_q(x) = x (x-1) .. (x-q+1) / q!, integer for integer x *)
RECURSIVE Binom(_, _)
Binom(x, q) == IF q = 0 THEN 1 ELSE (Binom(x, q - 1) * (x - q + 1)) \div q   \* exact at every step, stays small
DBinom0(q) == IF q = 0 THEN RZero ELSE RNorm(IF q % 2 = 1 THEN 1 ELSE 0 - 1, q)  \* B_q'(0) = (-1)^(q-1)/q

Apply(row, n, F(_)) == \* sum_j row[j] * F(j) over the n samples
    RSumSeq([jj \in 1 .. n |-> IF row[jj - 1] = RZero THEN RZero ELSE RMul(row[jj - 1], RInt(F(jj - 1)))])   \* F only where the weight is non-zero (keeps integers small)

(* one-sided mode: exact on every polynomial of degree <= p, at every point *)
ExactOnPolynomials ==
    mode = "onesided" =>
        \A q \in 0 .. p : Apply(R, N, LAMBDA j : Binom(j - i, q)) = DBinom0(q)

(* every mode differentiates constants to zero *)
RowSumZero == Apply(R, N, LAMBDA j : 1) = RZero

(* periodic: the operator is circulant, and exact on polynomials away from the wrap when N > p *)
Circulant == mode = "periodic" => \A j \in 0 .. N - 1 : R[j] = Row(p, mode, N, 0)[Mod(j - i, N)]
PeriodicInterior ==
    (mode = "periodic" /\ N > p /\ i >= Half(p) /\ i < N - Half(p)) =>
        \A q \in 0 .. p : Apply(R, N, LAMBDA j : Binom(j - i, q)) = DBinom0(q)

(* symmetric: exact on polynomials that are even about sample 0, near the left edge, *)
(* and on polynomials even about sample N-1 near the right edge (x^2, x^4)          *)
Pow(x, e) == IF e = 0 THEN 1 ELSE IF e = 2 THEN x * x ELSE x * x * x * x
SymmetricLeft ==
    (mode = "symmetric" /\ N > p /\ i < N - Half(p)) =>
        \A e \in {0, 2} \cup (IF p >= 4 /\ N <= 24 THEN {4} ELSE {}) :
            Apply(R, N, LAMBDA j : Pow(j, e)) = RInt(IF e = 0 THEN 0 ELSE IF e = 2 THEN 2 * i ELSE 4 * i * i * i)
SymmetricRight ==
    (mode = "symmetric" /\ N > p /\ i >= Half(p)) =>
        \A e \in {0, 2} \cup (IF p >= 4 /\ N <= 24 THEN {4} ELSE {}) :
            LET c == N - 1 IN
            Apply(R, N, LAMBDA j : Pow(j - c, e)) =
                RInt(IF e = 0 THEN 0 ELSE IF e = 2 THEN 2 * (i - c) ELSE 4 * (i - c) * (i - c) * (i - c))

(* support: nothing outside the stated neighbourhood *)
Support ==
    \A j \in 0 .. N - 1 :
        R[j] # RZero =>
            CASE mode = "onesided" ->
                    (LET kd == Kind(p, mode, N, i)
                     IN  (CASE kd = "fwd" -> j \in i .. i + p
                            [] kd = "bwd" -> j \in i - p .. i
                            [] kd = "ctr" -> j \in i - Half(p) .. i + Half(p)))
              [] mode = "periodic"  -> \E k \in Nodes("ctr", p) : Mod(i + k, N) = j
              [] mode = "symmetric" -> \E k \in Nodes("ctr", p) : Mirror(i + k, N) = j

(* centred weights are antisymmetric and the one-sided ones mirror each other *)
WeightSymmetry ==
    /\ \A k \in Nodes("ctr", p) : W(Nodes("ctr", p), k) = RNeg(W(Nodes("ctr", p), 0 - k))
    /\ \A k \in Nodes("fwd", p) : W(Nodes("fwd", p), k) = RNeg(W(Nodes("bwd", p), 0 - k))

AllRational == \A j \in 0 .. N - 1 : IsRat(R[j])

(* one JSON record per state for the conformance harness *)
EmitRow == Emit => PrintT(ToJson([p |-> p, mode |-> mode, N |-> N, i |-> i,
                                  row |-> [j \in 1 .. N |-> R[j - 1]]]))
=============================================================================
