"""C11: Einstein Toolkit output is read back exactly for any file and process layout."""
import json

from .. import et_engine as E
from ..common import Run

CUTS = {3: [[], [1], [2], [1, 2]], 4: [[], [1], [3], [2, 3], [1, 2, 3]]}
CUTS_SMALL = {3: [[], [1], [1, 2]], 4: [[], [2], [1, 3]]}


def run(tier, seed):
    run = Run("C11", tier, seed)
    M = (3, 4, 3)
    decs = []
    r1 = E.run_chunks(M, [1, 3, (1, 2, 3), (3, 1, 2)], CUTS, "tensor", ["xfast", "zfast", "reversed", "rotated"])
    run.add_tlc(r1, "Chunks: tensor-product cuts, exhaustive")
    r2 = E.run_chunks(M, [2, (2, 1, 1)], CUTS_SMALL, "slab", ["xfast", "reversed"])
    run.add_tlc(r2, "Chunks: per-slab y/x cuts, exhaustive (reduced cut options)")
    r3 = E.run_chunks(M, [1, 2, (1, 3, 2)], CUTS, "nested", ["xfast", "rotated", "reversed"], simulate=(6 if tier == "quick" else 60), seed=seed + 1)
    run.add_tlc(r3, "Chunks: fully nested cuts, simulated")
    r5 = E.run_chunks(M, [1, (1, 2, 1)], CUTS_SMALL, "xouter", ["xfast", "reversed"], simulate=(12 if tier == "quick" else 120), seed=seed + 3)
    run.add_tlc(r5, "Chunks: decompositions nested the other way round (x-slabs outermost) - outside the supported family, simulated")
    for r in (r1, r2, r3, r5):
        if r.violated:
            raise RuntimeError("Chunks spec violates " + r.violated)
        decs += [p for p in r.printed if "chunks" in p]
    if tier == "thorough":
        r4 = E.run_chunks((4, 4, 4), [1, 2, 3, (3, 2, 1), (1, 1, 2)], {4: [[], [1], [2], [3], [1, 2], [1, 3], [2, 3], [1, 2, 3]]}, "tensor", ["xfast", "reversed"])
        run.add_tlc(r4, "Chunks: 4x4x4, all tensor-product cuts (1..64 chunks)")
        decs += [p for p in r4.printed if "chunks" in p]
    seen = {}
    for d in decs:
        seen.setdefault(json.dumps(d, sort_keys=True), d)
    decs = list(seen.values())
    jobs = [(d, i, i) for i, d in enumerate(decs)]
    res = E.pmap(E.check_decomposition, jobs)
    for (d, _, _), fnds in zip(jobs, res):
        n = len(d["chunks"])
        run.count(("dec", d["family"], n, d["order"], tuple(d["ghost"]), tuple(sorted((c["x"][0], c["y"][0], c["z"][0]) for c in d["chunks"]))) if n >= 2 else None)
        if not fnds:
            run.traces += 1
        for sig, what, rep in fnds:
            run.violation(sig, what, rep)
    run.sample({"decomposition": decs[len(decs) // 2], "checked": "join_chunks/fixij on the pieces in two enumeration orders; read_data on a generated directory"})
    # restarts / requests
    lays = E.LAYOUTS
    rs = E.run_etsim([0, 4, 8, 12], [1, 2], [4], 3, lays, [1, 2])
    run.add_tlc(rs, "ETSim: <=3 restarts, overlapping ranges, 4 layouts, 1-2 levels, exhaustive")
    sims = [p for p in rs.printed if "restarts" in p]
    mixed_reqs = E.DEFAULT_REQUESTS + [{"it": [6], "vars": ["alpha"], "rl": 0, "restart": -1}, {"it": [2, 6, 10], "vars": ["betaup3"], "rl": 0, "restart": -1},
                                       {"it": [6, 8], "vars": ["alpha"], "rl": 1, "restart": -1}]
    rsm = E.run_etsim([0, 4], [2, 4], [2, 4], 2, lays, [1, 2], requests=mixed_reqs)
    run.add_tlc(rsm, "ETSim: 2 restarts written with different output strides (2 and 4), overlapping, exhaustive")
    sims += [p for p in rsm.printed if "restarts" in p]
    if tier == "thorough":
        rs2 = E.run_etsim([0, 4, 8, 12, 16], [1, 2, 3], [4], 4, lays, [1, 2], simulate=40, seed=seed + 2)
        run.add_tlc(rs2, "ETSim: <=4 restarts simulated")
        sims += [p for p in rs2.printed if "restarts" in p]
    if rs.violated:
        raise RuntimeError("ETSim spec violates " + rs.violated)
    sjobs = [(s, i) for i, s in enumerate(sims) if s["reads"]]
    sres = E.pmap(E.check_sim, sjobs)
    nreads = 0
    for (s, _), fnds in zip(sjobs, sres):
        nreads += len(s["reads"])
        run.count(("sim", json.dumps(s["restarts"]), tuple(s["layout"]), s["nlev"]) if len(s["restarts"]) >= 2 else None)
        if not fnds:
            run.traces += 1
        for sig, what, rep in fnds:
            run.violation(sig, what, rep)
    run.info["directories_generated"] = len(jobs) + len(sjobs)
    run.info["read_requests_checked"] = nreads
    if sjobs:
        s = sjobs[len(sjobs) // 2][0]
        run.sample({"restarts": s["restarts"], "layout": s["layout"], "levels": s["nlev"], "reads": s["reads"][:2]})
    run.rule = ("every Chunks state (nested rectilinear decomposition x ghost width x enumeration order) is joined with the real join_chunks/fixij and "
                "read through generated CarpetIOHDF5-shaped directories in the four layouts; decompositions nested the other way round and sets with one "
                "piece missing must raise (or, for the former, return exactly the grid); every ETSim state (restart sequences with overlapping "
                "iteration ranges, levels, layouts) is materialised and every admissible request compared bit-for-bit with the spec's Truth / "
                "serving restart / order / times. Non-trivial = >= 2 chunks or >= 2 restarts")
    run.assumptions = ["ghost widths >= 1, equal or different between the axes", "output strides 2 and 4, possibly different between restarts",
                       "array values encode (variable, restart, iteration, level, x, y, z)"]
    return run.finish()


def replay(path):
    with open(path) as fh:
        r = json.load(fh)["replay"]
    if "decomposition" in r:
        f = E.check_decomposition((r["decomposition"], E.LAYOUTS.index(tuple(r.get("layout", E.LAYOUTS[0]))), 1))
    else:
        st = dict(r["state"])
        st["reads"] = [x for x in st["reads"] if x["q"] == r["query"]]
        f = E.check_sim((st, 0))
    for x in f:
        print(x[0], x[1])
    return 1 if f else 0
