"""C20: spin-weighted spherical harmonics, interpolation onto a sphere, mode extraction."""
import json
from fractions import Fraction as F

import numpy as np

from .. import geo_engine as GE
from .. import jets as J
from ..common import Run
from ..tlc import run_tlc

SH_INV = ["Orthonormal", "SpinZeroIsLegendre", "Ladder", "LadderTop", "Conjugation", "Emit"]
PYTH = [(3, 4, 5), (5, 12, 13), (8, 15, 17), (7, 24, 25), (20, 21, 29), (12, 35, 37), (9, 40, 41), (28, 45, 53), (11, 60, 61),
        (16, 63, 65), (33, 56, 65), (48, 55, 73), (13, 84, 85), (36, 77, 85)]


def harmonics_oracle(lmax, nprimes):
    primes = J.PRIMES[:nprimes]
    extra = f"CONSTANTS\n  SMax = 2\n  LMax = {lmax}\n"
    res = GE.run_mod_primes("SpinHarmonics", {p: {} for p in primes}, SH_INV, spec_dirs=("harmonics", "exact"), primes=primes, extra_cfg=extra)
    for r in res:
        if r["violated"]:
            raise RuntimeError(f"SpinHarmonics: the closed form violates {r['violated']} modulo {r['p']}:\n{r['tail']}")
    table = {}
    for r in res:
        for rec in r["printed"]:
            if isinstance(rec, dict) and "coef" in rec:
                table.setdefault((rec["s"], rec["l"], rec["m"]), []).append(rec)
    out = {}
    for key, recs in table.items():
        ps = [x["P"] for x in recs]
        coef = J.lift([x["coef"] for x in recs], ps)
        fac2 = J.lift([[x["fac2"]] for x in recs], ps)[0]
        out[key] = (coef, fac2)
    return out, res


def negative_control():
    """A sign slip in the closed form must be rejected by the identities (vacuity guard)."""
    import os
    import re
    here = os.path.dirname(os.path.dirname(os.path.dirname(os.path.abspath(__file__))))
    src = open(os.path.join(here, "spec", "harmonics", "SpinHarmonics.tla")).read()
    bad = src.replace("Sign(l - r - s))]", "Sign(l - r))]")
    assert bad != src
    bad = bad.replace("MODULE SpinHarmonics", "MODULE SpinHarmonicsBad")
    cfg = "SPECIFICATION Spec\nCONSTANTS\n  P = 46337\n  SMax = 2\n  LMax = 3\n" + "".join(f"INVARIANT {i}\n" for i in SH_INV[:-1])
    r = run_tlc("SpinHarmonicsBad", cfg, ["harmonics", "exact"], extra_files={"SpinHarmonicsBad.tla": bad}, workers=2, timeout=600)
    return r.violated


def angles():
    """Half-angle points with rational cosine and sine: more distinct ones than the degree of any polynomial compared."""
    pts = []
    for a, b, h in PYTH:
        for c, d in ((a, b), (b, a)):
            pts.append((F(c, h), F(d, h)))
    return pts


def exact_value(coef, fac2, c, d, m, phi):
    n = len(coef) - 1
    tot = 0.0
    for a, v in enumerate(coef):
        if v:
            tot += float(v) * float(c) ** a * float(d) ** (n - a)
    return np.sqrt(float(fac2) / (4 * np.pi)) * tot * np.exp(1j * m * phi)


def check_harmonics(run, table):
    import aurel.maths as mt
    pts = angles()
    theta = np.array([2 * np.arctan2(float(d), float(c)) for c, d in pts])
    phis = np.array([0.3, 1.7, -2.2, 4.9])
    TH, PH = np.meshgrid(theta, phis, indexing="ij")
    for (s, l, m), (coef, fac2) in sorted(table.items()):
        if fac2 is None or any(v is None for v in coef):
            run.note_drift(f"sYlm({s},{l},{m}): exact coefficients not reconstructed")
            continue
        run.count(("sYlm", s, l, m))
        got = mt.sYlm(s, l, m, TH, PH)
        got = np.broadcast_to(np.asarray(got, dtype=complex), TH.shape)      # a degenerate sum returns a scalar
        want = np.array([[exact_value(coef, fac2, c, d, m, ph) for ph in phis] for c, d in pts])
        err = np.abs(got - want).max()
        if not err <= 1e-11 * max(1.0, np.abs(want).max()):
            i = np.unravel_index(np.argmax(np.abs(got - want)), want.shape)
            run.violation({"clause": "HarmonicIsTheClosedForm", "s": s, "l": l if l <= 3 else "4+"},
                          f"sYlm(s={s}, l={l}, m={m}) at theta = 2 atan({pts[i[0]][1]}/{pts[i[0]][0]}), phi = {phis[i[1]]}: {got[i]!r}; the "
                          f"orthonormal harmonic (validated closed form) is {want[i]!r}", {"s": s, "l": l, "m": m})
        else:
            run.traces += 1
        if s == 0:
            # spin 0 against scipy's ordinary harmonics (Condon-Shortley phase): the documented relation is a factor (-1)^m
            try:
                from scipy.special import sph_harm_y
                ref = sph_harm_y(l, m, TH, PH)
            except ImportError:
                from scipy.special import sph_harm
                ref = sph_harm(m, l, PH, TH)
            if np.abs(got - (-1) ** m * ref).max() > 1e-11:
                run.violation({"clause": "SpinZeroIsOrdinaryHarmonic"}, f"0Y_{l}{m} differs from (-1)^m times scipy's Y_lm by "
                              f"{np.abs(got - (-1) ** m * ref).max():.3g}", {"s": 0, "l": l, "m": m})


# ---------------------------------------------------------------------------
def interp_oracle(N):
    cfg = f"""SPECIFICATION Spec
CONSTANTS
  N = {N}
  Fields = {{"trilinear_a", "trilinear_b", "linear", "rough"}}
  Emit = TRUE
INVARIANT WeightsArePartitionOfUnity
INVARIANT ExactOnTrilinear
INVARIANT ExactAtNodes
INVARIANT EmitState
"""
    return run_tlc("Interp", cfg, ["harmonics", "exact"], timeout=1200)


def field_values(f, N):
    i, j, l = np.meshgrid(np.arange(N), np.arange(N), np.arange(N), indexing="ij")
    if f == "trilinear_a":
        return (3 + 2 * i - j + 4 * l + i * j - 2 * i * l + 3 * j * l + i * j * l).astype(float)
    if f == "trilinear_b":
        return (-7 + i * l - 5 * j * l + 2 * i * j * l).astype(float)
    if f == "linear":
        return (1 + i + 10 * j + 100 * l).astype(float)
    return (((7 * i + 3 * j * j + 11 * l * l * l + i * j * l * l) % 13) - 6).astype(float)


def check_interp(run, res, N):
    import aurel.numerical as num
    x0, h = (-1.5, 0.25, 2.0), (0.5, 0.125, 0.75)
    grids = tuple(x0[a] + h[a] * np.arange(N) for a in range(3))
    vals = {}
    states = [p for p in res.printed if isinstance(p, dict) and "refuse" in p]
    inside = {}
    for p in states:
        k = p["k"]
        tgt = tuple(np.array([x0[a] + h[a] * k[a] / 4.0]) for a in range(3))
        f = p["f"]
        if f not in vals:
            vals[f] = field_values(f, N)
        run.count(("interp", f, tuple(k)) if (p["refuse"] or not p["node"]) else None)
        if p["refuse"]:
            try:
                v = num.interpolate(vals[f], grids, tgt)
                run.violation({"clause": "RefusesOutside"}, f"interpolate accepted the target {tuple(float(t[0]) for t in tgt)} outside the grid "
                              f"[{grids[0][0]}, {grids[0][-1]}] x [{grids[1][0]}, {grids[1][-1]}] x [{grids[2][0]}, {grids[2][-1]}] and returned {v}",
                              {"k": k, "f": f})
            except ValueError:
                run.traces += 1
            continue
        want = p["value"][0] / p["value"][1]
        try:
            got = float(num.interpolate(vals[f], grids, tgt)[0])
        except Exception as ex:
            run.violation({"clause": "InterpolatesInside", "exc": type(ex).__name__},
                          f"interpolate raised {type(ex).__name__}: {ex} for the target k/4 = {k} inside the grid", {"k": k, "f": f})
            continue
        if abs(got - want) > 1e-12 * max(1.0, abs(want)):
            run.violation({"clause": "ExactAtNodes" if p["node"] else "ExactOnTrilinear", "field": f if f == "rough" else "trilinear"},
                          f"interpolate of field {f!r} at k/4 = {k}: {got!r}, the multilinear interpolant is {p['value'][0]}/{p['value'][1]}",
                          {"k": k, "f": f})
        else:
            run.traces += 1
    # every method offered is exact at the nodes (6 nodes per axis so that the spline methods apply)
    M = 6
    g6 = tuple(x0[a] + h[a] * np.arange(M) for a in range(3))
    v6 = field_values("rough", M)
    I, Jx, L = np.meshgrid(np.arange(M), np.arange(M), np.arange(M), indexing="ij")
    tg = (g6[0][I], g6[1][Jx], g6[2][L])
    for method in ("linear", "nearest", "slinear", "cubic", "quintic", "pchip"):
        try:
            got = num.interpolate(v6, g6, tg, method=method)
        except ValueError as ex:
            if "method" in str(ex).lower():
                continue        # not offered by this scipy
            raise
        run.count(("nodes", method))
        # scipy builds the cubic / quintic tensor-product splines with an iterative solver: they reproduce the node values to
        # the solver's tolerance (measured 2e-4 on values of size 6), the other methods to round-off
        tol = 2e-3 * np.abs(v6).max() if method in ("cubic", "quintic") else 1e-9
        import scipy.interpolate as si
        direct = si.RegularGridInterpolator(g6, v6, method=method, bounds_error=False, fill_value=None)(np.stack([t.flatten() for t in tg], axis=-1)).reshape(v6.shape)
        if np.abs(got - direct).max() > 1e-12:
            run.violation({"clause": "MethodPassedThrough", "method": method},
                          f"interpolate(method={method!r}) differs from scipy's interpolant of that method by {np.abs(got - direct).max():.3g}", {"method": method})
        if np.abs(got - v6).max() > tol:
            run.violation({"clause": "ExactAtNodes", "method": method},
                          f"interpolate(method={method!r}) evaluated at the grid nodes differs from the node values by {np.abs(got - v6).max():.3g}",
                          {"method": method})
        else:
            run.traces += 1


# ---------------------------------------------------------------------------
def sphere_grid(Ntheta):
    """The sampling Psi4_lm uses."""
    th = np.pi * np.arange(0.5, Ntheta + 1.5, 1) / (Ntheta + 1)
    Nphi = 2 * Ntheta
    ph = 2 * np.pi * np.arange(0.5, Nphi + 1.5, 1) / (Nphi + 1)
    TH, PH = np.meshgrid(th, ph, indexing="ij")
    return TH, PH, np.diff(th)[0], np.diff(ph)[0]


def check_roundtrip(run, seed):
    """Decomposing a band-limited field and re-synthesising it returns the field, converging with the angular resolution."""
    import aurel.maths as mt
    rng = np.random.default_rng(20 + seed)
    for s in (-2, 0, 1):
        lmax = 3
        alm = {(l, m): (complex(rng.integers(-4, 5), rng.integers(-4, 5)) / 4 if l >= abs(s) else 0.0) for l in range(lmax + 1) for m in range(-l, l + 1)}
        errs = []
        for Nt in (16, 32, 64):
            TH, PH, dth, dph = sphere_grid(Nt)
            f = sum(a * mt.sYlm(s, l, m, TH, PH) for (l, m), a in alm.items() if a != 0)
            got = mt.sYlm_coefficients(s, lmax, f, TH, PH, np.sin(TH) * dth, dph)
            e1 = max(abs(got[k] - alm[k]) for k in alm if k[0] >= abs(s))
            back = mt.sYlm_reconstruct(s, lmax, {k: (got[k] if k[0] >= abs(s) else 0.0) for k in got}, TH, PH)
            e2 = np.abs(back - f).max() / np.abs(f).max()
            # the same field sampled on another angular grid of the same shape (azimuths offset by 0.3): the decomposition depends on
            # where the samples are, not on how many there are
            PH2 = PH + 0.3
            f2 = sum(a * mt.sYlm(s, l, m, TH, PH2) for (l, m), a in alm.items() if a != 0)
            got2 = mt.sYlm_coefficients(s, lmax, f2, TH, PH2, np.sin(TH) * dth, dph)
            e3 = max(abs(got2[k] - alm[k]) for k in alm if k[0] >= abs(s))
            errs.append(max(e1, e2, e3))
        run.count(("roundtrip", s))
        run.info.setdefault("roundtrip_errors_at_16_32_64", {})[str(s)] = [float(e) for e in errs]
        if not (errs[2] < 5e-3 and errs[2] < errs[1] / 3 and errs[1] < errs[0] / 3):
            run.violation({"clause": "DecomposeThenSynthesiseReturnsField", "s": s},
                          f"spin {s}: coefficients / re-synthesised field of a band-limited field (l <= 3) are off by {errs} at 16, 32, 64 inclination "
                          f"points (midpoint rule: expected to shrink 4-fold per doubling)", {"s": s})
        else:
            run.traces += 1


def check_extraction(run):
    """Psi4_lm of a field that is g(r) x one spin -2 harmonic returns g(R) for that mode and ~0 for the others."""
    import aurel.core as core
    import aurel.maths as mt
    from .. import fields
    modes = [((2, 0), (0.0, 0.0, 0.0)), ((2, 1), (0.0, 0.0, 0.0)), ((3, -1), (0.0, 0.0, 0.0)),
             ((2, 1), (0.1, -0.15, 0.2)), ((2, -1), (-0.2, 0.05, 0.1))]       # also spheres that are not centred on the grid
    R = 0.8
    for (l0, m0), cen in modes:
        errs = []
        for N in (16, 32, 64):
            Lbox = 1.2
            h = 2 * Lbox / (N - 1)
            fd = fields.make_fd(N=N, order=4, h=h, origin=(-Lbox, -Lbox, -Lbox))
            radii = [0.5, R, 0.65]          # several extraction spheres in one call: each one is sampled at its own radius
            rel = core.AurelCore(fd, verbose=False, lmax=3, extract_radii=radii, center=cen, interp_method="linear")
            X, Y, Z = fd.x - cen[0], fd.y - cen[1], fd.z - cen[2]
            r = np.sqrt(X ** 2 + Y ** 2 + Z ** 2)
            rs = np.where(r == 0, 1.0, r)
            th = np.arccos(np.clip(Z / rs, -1, 1))
            ph = np.arctan2(Y, X)
            psi4 = (1.0 + 0.5 * r ** 2) * mt.sYlm(-2, l0, m0, th, ph)
            zero = np.zeros(fd.x.shape, dtype=complex)
            rel.data["Weyl_Psi"] = [zero, zero, zero, zero, psi4]
            res = rel["Psi4_lm"]
            want = 1.0 + 0.5 * R ** 2
            e = max(abs(res[rad][(l, m)] - ((1.0 + 0.5 * rad ** 2) if (l, m) == (l0, m0) else 0.0))
                    for rad in radii for l in range(2, 4) for m in range(-l, l + 1))
            errs.append(e)
        run.count(("Psi4_lm", l0, m0, cen))
        run.info.setdefault("extraction_errors_at_16_32_64", {})[f"{l0},{m0} about {cen}"] = [float(e) for e in errs]
        if not (errs[2] < 2e-2 * abs(want) and errs[2] < errs[1] / 2 and errs[1] < errs[0] / 2):
            run.violation({"clause": "ExtractionReturnsAmplitude", "l": l0, "m": m0, "centred": cen == (0.0, 0.0, 0.0)},
                          f"Psi4_lm of g(r) x (-2)Y_{l0}{m0} about the centre {cen} on the spheres R = 0.5, {R}, 0.65: largest coefficient error {errs} on 16^3, 32^3, 64^3 grids "
                          f"(the amplitude is {want}); expected to converge with the resolution", {"l": l0, "m": m0})
        else:
            run.traces += 1


def run(tier, seed):
    run = Run("C20", tier, seed)
    lmax = 10 if tier == "quick" else 12     # the library's factorials are floats: degrees beyond the default lmax = 8 are offered too
    table, res = harmonics_oracle(lmax, 6 if tier == "quick" else 10)
    for r in res:
        run.add_tlc(GE.FakeRes(r), f"SpinHarmonics modulo {r['p']}: |s| <= 2, l <= {lmax}; orthonormality, spin-0 Legendre form, ladder, conjugation checked on every (s, l, m)")
    neg = negative_control()
    run.info["negative_control_sign_slip_rejected_by"] = neg
    if not neg:
        raise RuntimeError("SpinHarmonics identities do not reject a sign slip in the closed form (vacuous)")
    check_harmonics(run, table)
    N = 3
    ri = interp_oracle(N)
    if ri.violated:
        raise RuntimeError("Interp spec violates " + ri.violated)
    run.add_tlc(ri, "Interp: 3 nodes per axis, every quarter point of every cell, nodes, points just outside; 4 fields")
    check_interp(run, ri, N)
    check_roundtrip(run, seed)
    check_extraction(run)
    k = sorted(table)[len(table) // 2]
    run.sample({"s_l_m": k, "closed_form_coefficients_by_power_of_cos_half": [str(v) for v in table[k][0]], "fac2_times_4pi": str(table[k][1])})
    run.rule = ("SpinHarmonics.tla: the closed form the library cites (Goldberg et al. 1967) as a polynomial in cos(theta/2), sin(theta/2), validated by "
                "TLC in exact arithmetic modulo primes for every |s| <= 2, l <= lmax, |m| <= l against facts it was not written from: exact "
                "orthonormality over the sphere (Beta integrals), the Legendre form at spin 0 (Bonnet recurrence; documented phase: no "
                "Condon-Shortley factor), the spin-raising ladder, complex conjugation; a sign slip is rejected (negative control). The real sYlm is "
                "compared with the lifted polynomial at 28 inclinations with rational half-angle cosine and sine (more than the degree 2l + 1: "
                "agreement there is identity of the polynomials) x 4 azimuths, and with scipy at spin 0. Interp.tla: multilinear interpolation in exact "
                "rationals, TLC checks partition of unity, exactness on trilinear fields and at nodes; every state (nodes, quarter points, points "
                "just outside, 4 fields) is run through numerical.interpolate; every scipy method at the nodes. Numerical clauses (harness level, not "
                "TLC): decomposition + re-synthesis of band-limited fields and Psi4_lm of a pure harmonic converge with the resolution")
    run.assumptions = ["spin weights -2 .. 2, degrees up to 10 (quick) / 12 (thorough); the default lmax of AurelCore is 8",
                       "orthogonality in m is the factor e^(i m phi) (not enumerated)",
                       "the two convergence clauses are floating-point experiments at three resolutions, not model-checked facts",
                       "extraction test uses modes that are smooth on the Cartesian grid ((2,0), (2,1), (3,-1)) and linear interpolation"]
    return run.finish()


def replay(path):
    print("re-run ./check C20 quick (the failing (s, l, m) / target / mode is in the replay file)")
    return 1
