"""C10: Weyl tensor, its electric/magnetic parts, scalars and invariants are consistent."""
import numpy as np

from .. import geo_replay as GR
from .. import spacetime as ST
from . import geo_common as GC

KEYS = [("st_Weyl_down4", "st_Weyl_down4", 1.0), ("eweyl_n_down3", "eweyl_n_down3", 1.0), ("bweyl_n_down3", "bweyl_n_down3", 1.0),
        ("eweyl_u_down4", "eweyl_n_down3", 1.0, "ss"), ("bweyl_u_down4", "bweyl_n_down3", 1.0, "ss")]
KEYS_CACHED = [("st_Weyl_down4", "st_Weyl_down4", 1.0), ("eweyl_u_down4", "eweyl_n_down3", 1.0, "ss"), ("bweyl_u_down4", "bweyl_n_down3", 1.0, "ss")]


def extra(run, cases, oracle, tier):
    """Weyl scalars = components of the (oracle's) Weyl tensor on the RETURNED null tetrad; tetrad orthonormality;
    tetrad independence of the invariants I, J where both tetrads are orthonormal (unit lapse, zero shift)."""
    for ci, c in enumerate(cases, start=1):
        if oracle.get(ci) is None:
            continue
        W = GR.as_array(oracle[ci]["st_Weyl_down4"], "st_Weyl_down4")
        if W is None:
            continue
        inv = {}
        seen = {}
        for tetrad in ("quasi-Kinnersley", "other"):
            vopt = {"vacuum": True, "_noT": True} if c.get("vacuum") else {}
            def psi_error(refine, tetrad=tetrad, vopt=vopt):
                rel, idx, F = GR.build_instance(c, oracle[ci], 4, opts=dict(vopt, tetrad=tetrad), refine=refine)
                at = (...,) + idx
                l, k, m, mb = [v[at] for v in rel.null_vector_base()]
                psis = rel["Weyl_Psi"]
                want = [np.einsum("abcd,a,b,c,d", W, k, m, k, m), np.einsum("abcd,a,b,c,d", W, l, k, m, k),
                        np.einsum("abcd,a,b,c,d", W, k, m, mb, l), np.einsum("abcd,a,b,c,d", W, k, l, mb, l),
                        np.einsum("abcd,a,b,c,d", W, l, mb, l, mb)]
                errs = [abs(psis[n][idx] - want[n]) for n in range(5)]
                n = int(np.argmax(errs))
                iv = rel["Weyl_invariants"]
                seen[tetrad, refine] = dict(rel=rel, idx=idx, n=n, got=psis[n][idx], want=want[n], inv=(iv["I"][idx], iv["J"][idx]))
                return errs[n] / max(1.0, np.abs(W).max())

            run.count((c["cls"], c["seed"], tetrad, "psi"))
            ok, _ = GR.shrinks_under_refinement(psi_error, 4, 5e-5)
            s1 = seen[tetrad, 1]
            if not ok:
                run.violation({"clause": "PsiAreTetradComponents", "psi": s1["n"], "tetrad": tetrad},
                              f"Weyl_Psi[{s1['n']}] = {s1['got']!r} on the {c['cls']} spacetime (seed {c['seed']}, tetrad {tetrad}); the Weyl tensor "
                              f"contracted with the returned null tetrad gives {s1['want']!r} (and the difference does not shrink like "
                              f"discretisation error at half the spacing)", {"class": c["cls"], "seed": c["seed"]})
            rel, idx = s1["rel"], s1["idx"]
            at = (...,) + idx
            e = [v[at] for v in rel.tetrad_base()]
            g4 = rel["gdown4"][at]
            gam = rel["gammadown3"][at]
            if tetrad == "quasi-Kinnersley":
                tri = np.array([[e[a][1:] @ gam @ e[b][1:] for b in (1, 2, 3)] for a in (1, 2, 3)])
                if np.abs(tri - np.eye(3)).max() > 1e-9:
                    run.violation({"clause": "TriadOrthonormal", "tetrad": tetrad},
                                  f"spatial triad of the quasi-Kinnersley tetrad is not orthonormal for gamma on the {c['cls']} spacetime: {tri.tolist()}",
                                  {"class": c["cls"], "seed": c["seed"]})
            else:
                gm = np.array([[e[a] @ g4 @ e[b] for b in range(4)] for a in range(4)])
                if np.abs(gm - np.diag([-1, 1, 1, 1])).max() > 1e-9:
                    run.violation({"clause": "TetradOrthonormal", "tetrad": tetrad},
                                  f"fluid-adapted tetrad is not orthonormal for g on the {c['cls']} spacetime: g(e_a, e_b) = {gm.round(6).tolist()}",
                                  {"class": c["cls"], "seed": c["seed"]})
            inv[tetrad] = s1["inv"]
            run.traces += 1
            if tetrad == "other":
                # fluid moving with respect to the slicing: the fluid-adapted tetrad must still be orthonormal for g
                relm, idxm, _ = GR.build_instance(c, oracle[ci], 4, opts=dict(vopt, tetrad=tetrad, _moving_fluid=True))
                em = [v[(...,) + idxm] for v in relm.tetrad_base()]
                g4m = relm["gdown4"][(...,) + idxm]
                gm = np.array([[em[a] @ g4m @ em[b] for b in range(4)] for a in range(4)])
                run.count((c["cls"], c["seed"], "moving-fluid tetrad"))
                if np.abs(gm - np.diag([-1, 1, 1, 1])).max() > 1e-9:
                    run.violation({"clause": "TetradOrthonormal", "tetrad": tetrad, "fluid": "moving"},
                                  f"fluid-adapted tetrad (fluid moving with v = (0.25, -0.15, 0.1)) is not orthonormal for g on the {c['cls']} "
                                  f"spacetime: g(e_a, e_b) = {gm.round(6).tolist()}", {"class": c["cls"], "seed": c["seed"]})
                if np.abs(em[0] - relm["uup4"][(...,) + idxm]).max() > 1e-12:
                    run.violation({"clause": "TetradAdaptedToFluid"}, "e0 of the fluid-adapted tetrad is not the fluid 4-velocity",
                                  {"class": c["cls"], "seed": c["seed"]})
        # electric and magnetic parts in the frame of a fluid that MOVES with respect to the slicing: the oracle's exact Weyl tensor
        # contracted (numpy) with the code's own u^mu, the exact inverse metric and epsilon_abcd = sqrt(-g) [abcd]
        if not c.get("vacuum") and (ci <= 3 or tier != "quick"):
            g4 = GR.as_array(oracle[ci]["gdown4"], "gdown4")
            g4u = GR.as_array(oracle[ci]["gup4"], "gup4")
            gd = GR.as_array(oracle[ci]["gdet"], "gdet")
            if g4 is not None and g4u is not None and gd is not None:
                import itertools
                eps = np.zeros((4, 4, 4, 4))
                for perm in itertools.permutations(range(4)):
                    sgn = np.linalg.det(np.eye(4)[list(perm)])
                    eps[perm] = sgn * np.sqrt(-gd)
                eps_uudd = np.einsum("ac,bd,abef->cdef", g4u, g4u, eps)

                def frame_error(refine):
                    relm, idxm, _ = GR.build_instance(c, oracle[ci], 4, opts={"_moving_fluid": True}, refine=refine)
                    atm = (...,) + idxm
                    u = relm["uup4"][atm]
                    if not np.all(np.isfinite(u)):
                        # the fixed coordinate velocity is superluminal for this metric (gamma_ij v^i v^j >= 1): no such fluid
                        seen["frame", refine] = (0.0, 0.0)
                        return 0.0
                    Eref = np.einsum("b,d,abcd->ac", u, u, W)
                    Bref = 0.5 * np.einsum("b,f,abcd,cdef->ae", u, u, W, eps_uudd)
                    eE = np.abs(relm["eweyl_u_down4"][atm] - Eref).max()
                    eB = np.abs(relm["bweyl_u_down4"][atm] - Bref).max()
                    seen["frame", refine] = (eE, eB)
                    return max(eE, eB) / max(1.0, np.abs(W).max())

                run.count((c["cls"], c["seed"], "moving-fluid frame"))
                ok, _ = GR.shrinks_under_refinement(frame_error, 4, 5e-5)
                if not ok:
                    eE, eB = seen["frame", 1]
                    run.violation({"clause": "FluidFrameParts", "part": "B" if eB > eE else "E"},
                                  f"eweyl_u_down4 / bweyl_u_down4 for a fluid moving with v = (0.25, -0.15, 0.1) on the {c['cls']} spacetime (seed {c['seed']}) "
                                  f"differ from C_abcd u^b u^d and (1/2) u^b u^f C_abcd eps^cd_ef by {eE:.3g} / {eB:.3g} (no convergence at half the spacing)",
                                  {"class": c["cls"], "seed": c["seed"]})
        if c["cls"] in ("wave-zone", "minkowski-like"):
            (i1, j1), (i2, j2) = inv["quasi-Kinnersley"], inv["other"]

            def ij_error(refine):
                for t in ("quasi-Kinnersley", "other"):
                    if (t, refine) not in seen:
                        vopt = {"vacuum": True, "_noT": True} if c.get("vacuum") else {}
                        r2, x2, _ = GR.build_instance(c, oracle[ci], 4, opts=dict(vopt, tetrad=t), refine=refine)
                        iv = r2["Weyl_invariants"]
                        seen[t, refine] = dict(inv=(iv["I"][x2], iv["J"][x2]))
                (a1, b1), (a2, b2) = seen["quasi-Kinnersley", refine]["inv"], seen["other", refine]["inv"]
                return max(abs(a1 - a2), abs(b1 - b2)) / max(1.0, abs(a1), abs(b1))

            run.count((c["cls"], c["seed"], "IJ"))
            ok, _ = GR.shrinks_under_refinement(ij_error, 4, 1e-4)
            if not ok:
                run.violation({"clause": "InvariantsTetradIndependent"},
                              f"Weyl invariants depend on the tetrad on the {c['cls']} spacetime: I = {i1} vs {i2}, J = {j1} vs {j2} "
                              f"(not discretisation error: the difference does not shrink at half the spacing)",
                              {"class": c["cls"], "seed": c["seed"]})


def run(tier, seed):
    classes = ST.CLASSES + [{"name": "wave-zone", "shift": "zero", "lapse": "one", "metric": "non-diagonal", "K": "nonzero"}]
    return GC.run_geo("C10", tier, seed, KEYS,
                      "TLC computes the Weyl tensor (Riemann minus its Ricci parts) and its contractions E_ij, B_ij with the unit normal in exact "
                      "arithmetic and checks trace-freeness, Riemann symmetries, symmetry and trace-freeness of E and B on the oracle; the real "
                      "st_Weyl_down4 is compared in BOTH cache states (from E/B; from a cached Riemann tensor), eweyl_n/bweyl_n with the oracle's "
                      "contractions, eweyl_u/bweyl_u (default fluid) with the normal-frame parts; Weyl_Psi with the oracle's Weyl tensor on the "
                      "returned null tetrad; tetrad orthonormality; tetrad independence of I, J where both tetrads are orthonormal",
                      classes=classes, extra_checks=extra,
                      variants=[("Riemann cached first", {"_pre": ["st_Riemann_down4"]}, KEYS_CACHED)])


def replay(path):
    print("re-run ./check C10 quick")
    return 1
