------------------------------ MODULE Cleanup ------------------------------
(* One call of AurelCore.cleanup_cache() (core.py:209-303), small-step, WITH the byte arithmetic that      *)
(* AurelCache.tla abstracts away (there the memory threshold is either never reached or below the inputs). *)
(*                                                                                                         *)
(* One action per section of the function body:                                                            *)
(*   Enter    measure the dictionary (deep sizes, keys included); decide whether anything is due           *)
(*   Pass1    the strain rule: every aged entry with  since * size * importance > clear_every * scalar     *)
(*            goes, in the iteration order of last_accessed                                                *)
(*   Recount  measure again (deep)                                                                         *)
(*   Loop     while total >= threshold: the aged entry of largest positive strain goes (the first such in  *)
(*            iteration order); no positive strain left: break.  After a removal the total is the SHALLOW  *)
(*            sum sys.getsizeof(value) over the values - a deliberate deviation of the code, modelled as   *)
(*            it is (a view or a list of arrays then weighs a few bytes)                                   *)
(* Sizes are the real byte counts of the objects the harness builds (constants KeyB, Deep, Shallow), so    *)
(* every terminal state is a prediction for the real function: which entries are gone, in which order.     *)
(* Importances are multiples of 1/4 (exact in binary floating point): Imp4 = 4 * importance.               *)
EXTENDS Integers, Sequences, FiniteSets, TLC, Json

CONSTANTS Keys,         \* names that may be in rel.data
          Order,        \* sequence over Keys without repetition: insertion order of last_accessed
          KeyB,         \* [Keys -> Nat]  sys.getsizeof(key)
          Deep,         \* [Keys -> Nat]  get_size(value): nbytes of arrays, summed through lists
          Shallow,      \* [Keys -> Nat]  sys.getsizeof(value)
          Imp4,         \* [Keys -> Nat]  4 * var_importance[key] while the key is not frozen
          Sinces,       \* subset of Int: -2 not cached; -1 cached without age entry (an input); n >= 0 last accessed n calculations ago
          Thresholds,   \* candidate memory thresholds in bytes
          ScalarB,      \* Nx * Ny * Nz * 8
          ClearEverys,  \* candidate clear_cache_every_nbr_calc
          Counts,       \* candidate calculation_count
          Emit          \* BOOLEAN: print every terminal state

VARIABLES cfg,      \* the situation the call starts from (never changes): since, frozen, thr, ce, count
          data,     \* keys of rel.data
          aged,     \* keys of rel.last_accessed (values are cfg.count - cfg.since[k])
          pc, total,
          removed,  \* what was deleted so far, in order
          npass     \* how many of them by the strain rule (the rest by the memory loop)
vars == <<cfg, data, aged, pc, total, removed, npass>>

RECURSIVE Sum(_, _)
Sum(f, S) == IF S = {} THEN 0 ELSE LET x == CHOOSE y \in S : TRUE IN f[x] + Sum(f, S \ {x})
DeepTotal(d)    == Sum([k \in Keys |-> KeyB[k] + Deep[k]], d)      \* get_size(self.data)
ShallowTotal(d) == Sum(Shallow, d)                                 \* sum(sys.getsizeof(v) for v in self.data.values())

Since(k)   == cfg.since[k]
I4(k)      == IF k \in cfg.frozen THEN 0 ELSE Imp4[k]
Strain4(k) == IF Since(k) > 1 THEN Since(k) * Deep[k] * I4(k) ELSE 0
Tol4       == cfg.ce * ScalarB * 4
Regular    == cfg.count % cfg.ce = 0
Data0      == {k \in Keys : cfg.since[k] # -2}
Aged0      == {k \in Keys : cfg.since[k] >= 0}
Exceeded0  == DeepTotal(Data0) >= cfg.thr
RECURSIVE Filter(_, _)
Filter(s, S) == IF s = << >> THEN << >> ELSE IF Head(s) \in S THEN <<Head(s)>> \o Filter(Tail(s), S) ELSE Filter(Tail(s), S)
InOrder(S) == Filter(Order, S)
Evictable0 == {k \in Aged0 : k \notin cfg.frozen /\ Since(k) > 1}      \* what AurelCache.tla's safety layer allows

Init == /\ cfg \in {c \in [since : [Keys -> Sinces], frozen : SUBSET Keys, thr : Thresholds, ce : ClearEverys, count : Counts] :
                       /\ \A k \in Keys : c.since[k] <= c.count
                       /\ c.frozen \subseteq {k \in Keys : c.since[k] # -2}}
        /\ data = Data0 /\ aged = Aged0
        /\ pc = "enter" /\ total = 0 /\ removed = << >> /\ npass = 0

Enter == /\ pc = "enter"
         /\ total' = DeepTotal(data)
         /\ pc' = IF Regular \/ DeepTotal(data) >= cfg.thr THEN "pass1" ELSE "done"
         /\ UNCHANGED <<cfg, data, aged, removed, npass>>

Pass1 == /\ pc = "pass1"
         /\ LET S == {k \in aged : Strain4(k) > Tol4} IN
            /\ data' = data \ S /\ aged' = aged \ S
            /\ removed' = removed \o InOrder(S) /\ npass' = Cardinality(S)
         /\ pc' = "recount"
         /\ UNCHANGED <<cfg, total>>

Recount == /\ pc = "recount"
           /\ total' = DeepTotal(data) /\ pc' = "loop"
           /\ UNCHANGED <<cfg, data, aged, removed, npass>>

Cand      == {k \in aged : Strain4(k) > 0}
MaxStrain == CHOOSE m \in {Strain4(k) : k \in Cand} : \A k \in Cand : Strain4(k) <= m
Victim    == LET s == InOrder({k \in Cand : Strain4(k) = MaxStrain}) IN s[1]     \* `strain > maxstrain` is strict: the first maximal one

LoopExit == /\ pc = "loop" /\ (total < cfg.thr \/ Cand = {})
            /\ pc' = "done"
            /\ UNCHANGED <<cfg, data, aged, total, removed, npass>>

LoopRemove == /\ pc = "loop" /\ total >= cfg.thr /\ Cand # {}
              /\ data' = data \ {Victim} /\ aged' = aged \ {Victim}
              /\ removed' = Append(removed, Victim)
              /\ total' = ShallowTotal(data \ {Victim})
              /\ UNCHANGED <<cfg, pc, npass>>

Next == Enter \/ Pass1 \/ Recount \/ LoopExit \/ LoopRemove
Spec == Init /\ [][Next]_vars
FairSpec == Spec /\ WF_vars(Next)

-----------------------------------------------------------------------------
Range(s) == {s[i] : i \in DOMAIN s}
(* C03 *)
FrozenNeverEvicted  == (cfg.frozen \cap Data0) \subseteq data
RecentNeverEvicted  == {k \in Aged0 : Since(k) <= 1} \subseteq data
UnagedNeverEvicted  == (Data0 \ Aged0) \subseteq data                 \* an input the cache never served is not in last_accessed
AgeTableSubsetOfCache == aged \subseteq data
RemovedTogether     == /\ data = Data0 \ Range(removed) /\ aged = Aged0 \ Range(removed)
                       /\ Len(removed) = Cardinality(Range(removed))
WithinSafetyLayer   == Range(removed) \subseteq Evictable0             \* the choice AurelCache.tla's Policy = "any" quantifies over
OnlyWhenDue         == (~Regular /\ ~Exceeded0) => removed = << >>
StrainRuleExact     == pc \in {"recount", "loop", "done"} /\ (Regular \/ Exceeded0) =>
                          Range(SubSeq(removed, 1, npass)) = {k \in Aged0 : Strain4(k) > Tol4}
LoopLargestFirst    == \A i, j \in (npass + 1) .. Len(removed) : i < j => Strain4(removed[i]) >= Strain4(removed[j])
LoopOnlyOverThreshold == [][(pc = "loop" /\ data' # data) => total >= cfg.thr]_vars
(* when the call returns either the (possibly shallow) total is under the threshold or nothing evictable with positive strain is left *)
ReturnsSmallEnough  == (pc = "done" /\ (Regular \/ Exceeded0)) => (total < cfg.thr \/ \A k \in aged : Strain4(k) = 0)
Bounded             == Len(removed) <= Cardinality(Data0)
Terminates          == <>(pc = "done")
TypeOK              == pc \in {"enter", "pass1", "recount", "loop", "done"} /\ data \subseteq Keys /\ total \in Nat

EmitDone == (Emit /\ pc = "done") =>
    PrintT(ToJson([since |-> cfg.since, frozen |-> cfg.frozen, thr |-> cfg.thr, ce |-> cfg.ce, count |-> cfg.count,
                   removed |-> removed, npass |-> npass, data |-> data, aged |-> aged, total |-> total,
                   due |-> (Regular \/ Exceeded0)]))
=============================================================================
