------------------------------- MODULE ICPert -------------------------------
(* aurel.solutions.ICPertFLRW: first-order perturbed FLRW initial data, in exact rationals at one point per state.     *)
(*                                                                                                                     *)
(*   gamma_ij = a^2 (1 - 2 Rc) delta_ij - 2 / (F H^2) d_i d_j Rc ,   F = f_L + 3/2 Omega_m                             *)
(*   K_ij     = - a^2 H (1 - 2 Rc) delta_ij + (2 + f_L) / (F H) d_i d_j Rc                                             *)
(*   delta1   = (d_x d_x + d_y d_y + d_z d_z) Rc / (a^2 F H^2)                                                         *)
(*                                                                                                                     *)
(* What the module claims beyond the formulas - the extrinsic curvature IS -1/2 d_t gamma_ij of the metric it returns  *)
(* - is checked by TLC on every state of an Einstein-de Sitter background (f_L = Omega_m = 1, d_t a^2 = 2 a^2 H,       *)
(* d_t H = -3/2 H^2), by differentiating the coefficients of the metric with the product rule.                         *)
(* Rc is a quadratic polynomial: its Hessian is a constant symmetric matrix with six different entries, which every    *)
(* finite-difference scheme of the library reproduces exactly, at boundary points too.                                 *)
EXTENDS Integers, Sequences, TLC, Json, Rat

CONSTANTS Cases      \* sequence of [a2, H, fL, Om, rc : rationals <<n, d>>; hess : <<xx, xy, xz, yy, yz, zz>> of rationals; eds : BOOLEAN]
VARIABLE st
Idx(i, j) == LET a == IF i <= j THEN i ELSE j   b == IF i <= j THEN j ELSE i
             IN CASE a = 1 -> b [] a = 2 -> b + 2 [] a = 3 -> 6
Hs(c, i, j) == c.hess[Idx(i, j)]
F(c)      == RAdd(c.fL, RMul(RNorm(3, 2), c.Om))
Diag(c)   == RMul(c.a2, RSub(ROne, RMul(RInt(2), c.rc)))
Gam(c, i, j) == RAdd(IF i = j THEN Diag(c) ELSE RZero, RMul(RNeg(RDiv(RInt(2), RMul(F(c), RMul(c.H, c.H)))), Hs(c, i, j)))
Kd(c, i, j)  == RAdd(IF i = j THEN RNeg(RMul(c.H, Diag(c))) ELSE RZero, RMul(RDiv(RAdd(RInt(2), c.fL), RMul(F(c), c.H)), Hs(c, i, j)))
Delta(c)  == RDiv(RAdd(Hs(c, 1, 1), RAdd(Hs(c, 2, 2), Hs(c, 3, 3))), RMul(c.a2, RMul(F(c), RMul(c.H, c.H))))
(* d_t gamma_ij on Einstein-de Sitter: d_t[a^2] = 2 a^2 H, d_t[-2/(F H^2)] = 4 d_t H / (F H^3) = -6 / (F H) *)
DtGamEdS(c, i, j) == RAdd(IF i = j THEN RMul(RMul(RInt(2), c.H), Diag(c)) ELSE RZero, RMul(RNeg(RDiv(RInt(6), RMul(F(c), c.H))), Hs(c, i, j)))

Init == st \in 1 .. Len(Cases)
Next == UNCHANGED st
Spec == Init /\ [][Next]_st

KIsMinusHalfDtGamma == Cases[st].eds => \A i, j \in 1 .. 3 : Kd(Cases[st], i, j) = RMul(RNorm(0 - 1, 2), DtGamEdS(Cases[st], i, j))
Symmetric == \A i, j \in 1 .. 3 : Gam(Cases[st], i, j) = Gam(Cases[st], j, i) /\ Kd(Cases[st], i, j) = Kd(Cases[st], j, i)
Emit == PrintT(ToJson([case |-> st, gam |-> [k \in 1 .. 9 |-> Gam(Cases[st], ((k - 1) \div 3) + 1, ((k - 1) % 3) + 1)],
                       K |-> [k \in 1 .. 9 |-> Kd(Cases[st], ((k - 1) \div 3) + 1, ((k - 1) % 3) + 1)], delta1 |-> Delta(Cases[st])]))
=============================================================================
