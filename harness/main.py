"""CLI: ./check <Cxx> {quick|thorough} [--replay path]

exit 0: property held on everything explored (KNOWN-FINDING lines possible)
exit 1: at least one unlisted VIOLATION
exit 2: machinery failure only
"""
import importlib
import os
import sys
import traceback


def main(argv):
    if len(argv) < 1:
        print(__doc__)
        return 2
    pid = argv[0]
    tier = argv[1] if len(argv) > 1 and not argv[1].startswith("--") else os.environ.get("VERIF_TIER", "quick")
    replay = None
    if "--replay" in argv:
        replay = argv[argv.index("--replay") + 1]
    seed = int(os.environ.get("VERIF_SEED", "0") or 0)
    try:
        mod = importlib.import_module(f"harness.props.{pid.lower()}")
    except ModuleNotFoundError:
        print(f"no check for {pid}")
        return 2
    try:
        if replay:
            return mod.replay(replay)
        return mod.run(tier, seed)
    except Exception:
        traceback.print_exc()
        print(f"MACHINERY-FAILURE property={pid}")
        return 2


if __name__ == "__main__":
    sys.exit(main(sys.argv[1:]))
