"""C04: spacetime (4-D) connection and curvature from 3+1 data match their definitions."""
from . import geo_common as GC

KEYS = [(k, k, 1.0) for k in ["gdown4", "gup4", "gdet", "st_Gamma_udd4", "st_Riemann_down4", "st_Riemann_uddd4", "st_Riemann_uudd4",
                               "st_Ricci_down4", "st_RicciS", "Einsteindown4", "Kretschmann"]]


def run(tier, seed):
    return GC.run_geo("C04", tier, seed, KEYS,
                      "spacetimes given by exact jets of lapse, shift and spatial metric (8 classes: generic, zero/constant/varying shift, unit/"
                      "constant/varying/time-dependent lapse, diagonal/non-diagonal/badly scaled metric, K = 0 or not); TLC computes the textbook "
                      "4-D metric, inverse, determinant, Christoffel symbols, Riemann (three index positions), Ricci, scalar, Einstein and "
                      "Kretschmann in exact arithmetic (validated by Riemann symmetries, Bianchi, metric compatibility, det g = -alpha^2 det gamma); "
                      "the real AurelCore is run on polynomial fields with these jets for fd_order 2/4/6/8 and interior/face/edge/corner probes "
                      "and compared at the probe point. Non-trivial = every class but Minkowski")


def replay(path):
    print("re-run ./check C04 quick (the failing class/seed/order/probe is in the replay file)")
    return 1
