#!/bin/sh
# tools/try_seed.sh <dir with patch.diff> <Cxx> [tier] : run a check against a scratch worktree of /repo with the seeded
# change applied (VERIF_REPO points the check at it; /repo itself is never touched), then remove the worktree.
D="$(cd "$1" && pwd)"; P=$2; T=${3:-quick}; W=/tmp/ts_$$
git -C /repo worktree add -q --detach $W HEAD || exit 2
git -C $W apply $D/patch.diff || { git -C /repo worktree remove --force $W; exit 2; }
cd /verif && VERIF_REPO=$W VERIF_EVIDENCE_DIR=/tmp/ts_ev_$$ VERIF_REPLAY_DIR=/tmp/ts_ev_$$ ./check $P $T > /tmp/try_${P}_$$.log 2>&1; rc=$?
git -C /repo worktree remove --force $W; rm -rf /tmp/ts_ev_$$
echo "check exit=$rc"; grep -c "^VIOLATION" /tmp/try_${P}_$$.log; grep -A1 "^VIOLATION" /tmp/try_${P}_$$.log | head -6; tail -1 /tmp/try_${P}_$$.log
