#!/bin/sh
# tools/try_seed.sh <dir with patch.diff> <Cxx> [tier] : run a check against /repo with the seeded change applied, then undo.
D="$(cd "$1" && pwd)"; P=$2; T=${3:-quick}
test -z "$(git -C /repo status --porcelain)" || { echo "/repo not clean"; exit 2; }
git -C /repo apply $D/patch.diff || exit 2
cd /verif && ./check $P $T > /tmp/try_$P.log 2>&1; rc=$?
git -C /repo checkout -- . 
echo "check exit=$rc"; grep -c "^VIOLATION" /tmp/try_$P.log; grep -A1 "^VIOLATION" /tmp/try_$P.log | head -6; tail -1 /tmp/try_$P.log
