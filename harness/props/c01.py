"""C01: the lazy cache is transparent (a value never depends on the request history)."""
import json

from .. import extract as X
from ..common import Run
from . import cache_common as CC


def specs_for(tier, seed):
    s = [
        dict(pres="tensors", nreq=2, ce=2, label="real graph, tensors, 2 requests exhaustive, ce=2"),
        dict(pres="tensors", nreq=2, ce=1000, label="real graph, tensors, 2 requests exhaustive, no clean-up (ce=1000)"),
        dict(pres="components", nreq=1, ce=1, coverage=True, label="real graph, components, 1 request exhaustive, ce=1 (with action coverage)"),
        dict(pres="minimal", nreq=1, ce=3, label="real graph, minimal inputs, 1 request, ce=3"),
        dict(pres="dust", nreq=3, ce=2, requests="MATTER", label="rest-mass density with a vacuum region, no eps given: 3 requests over matter keys, ce=2"),
        dict(pres="partial", nreq=2, ce=1000, requests="SHIFT", label="shift given by two components only: 2 requests over shift-related keys and helpers"),
        dict(pres="tensors", nreq=1, ce=1, mt=True, label="real graph, tensors, 1 request, memory threshold tiny"),
        dict(pres="tensors", nreq=5, ce=3, simulate=6, seed=seed + 1, emit=False, label="simulate 5 requests ce=3"),
        dict(pres="components", nreq=6, ce=2, simulate=6, seed=seed + 2, emit=False, label="simulate 6 requests ce=2 components"),
        dict(pres="tensors", nreq=8, ce=20, simulate=4, seed=seed + 3, emit=False, label="simulate 8 requests ce=20 (default period)"),
    ]
    if tier == "thorough":
        s += [
            dict(pres="components", nreq=2, ce=3, label="real graph, components, 2 requests exhaustive, ce=3"),
            dict(pres="minimal", nreq=3, ce=2, requests="GUARDS", label="3 requests exhaustive over the keys that guards test and their direct consumers, ce=2"),
            dict(pres="minimal", nreq=3, ce=1000, requests="GUARDS", label="3 requests exhaustive over guard keys and consumers, nothing evicted"),
            dict(pres="tensors", nreq=2, ce=1, mt=True, label="real graph, tensors, 2 requests exhaustive, mem tiny"),
            dict(pres="minimal", nreq=2, ce=7, label="real graph, minimal, 2 requests exhaustive, ce=7"),
            dict(pres="tensors", nreq=12, ce=7, simulate=40, seed=seed + 4, emit=False, label="simulate 12 requests ce=7"),
            dict(pres="components", nreq=20, ce=20, simulate=30, seed=seed + 5, emit=False, label="simulate 20 requests ce=20"),
            dict(pres="minimal", nreq=10, ce=1, simulate=30, seed=seed + 6, emit=False, label="simulate 10 requests ce=1"),
        ]
    return s


def run(tier, seed):
    run = Run("C01", tier, seed)
    opts = {}
    graph = X.extract(opts)
    run.info["graph"] = {"keys": len(graph["keys"]), "helpers": len(graph["helpers"]),
                         "paths": sum(graph["npaths"].values()), "guarded_keys": sorted(k for k, n in graph["npaths"].items() if n > 1)}
    plan = CC.Plan()
    shift_keys = [k for k in graph["keys"] + graph["helpers"] if k.startswith("beta") or k in
                  ("gtt", "gtx", "gty", "gtz", "gdown4", "gup4", "nup4", "call:s_to_st", "call:Lie_beta:s_dd", "call:Lie_beta:st_u",
                   "st_Riemann_down4", "st_Weyl_down4", "uup4", "gdet", "dttau")]
    matter_keys = [k for k in graph["keys"] if any(t in k for t in ("rho", "eps", "enthalpy", "conserved_D", "conserved_E", "press"))
                   and "fromHam" not in k] + ["gdet", "alpha", "Ktrace"]
    sp = specs_for(tier, seed)
    for x in sp:
        if x.get("requests") == "SHIFT":
            x["requests"] = shift_keys
        if x.get("requests") == "MATTER":
            x["requests"] = matter_keys
        if x.get("requests") == "GUARDS":
            tested = {n["key"] for ns in graph["prog"].values() for n in ns if n["op"] == "t"}
            consumers = {k for k, ns in graph["prog"].items() if any(n["op"] == "t" for n in ns)}
            x["requests"] = sorted((tested | consumers) & set(graph["keys"] + graph["helpers"]))
    specs = CC.run_models(run, graph, sp, plan, opts)
    run.info["tlc_models"] = [{k: v for k, v in sp.items() if k != "requests"} for sp in specs]
    CC.execute(run, "C01", graph, plan, opts, seed, max_traces=250 if tier == "quick" else 3000)
    if tier == "thorough":
        g2 = X.extract({"vacuum": True})
        plan2 = CC.Plan()
        CC.run_models(run, g2, [dict(pres="minimal", nreq=2, ce=2, label="vacuum=True graph, 2 requests exhaustive"),
                                dict(pres="minimal", nreq=8, ce=3, simulate=20, seed=seed + 9, emit=False, label="vacuum simulate")],
                      plan2, {"vacuum": True})
        CC.execute(run, "C01", g2, plan2, {"vacuum": True}, seed, max_traces=1500)
    # non-default physical / geometric options: cosmological constant and an off-centre origin for the quantities that use one
    opts3 = {"Lambda": 0.3, "center": (0.02, 0.3, 0.4)}
    g3 = X.extract(opts3)
    plan3 = CC.Plan()
    CC.run_models(run, g3, [dict(pres="tensors", nreq=1, ce=2, label="options Lambda != 0 and an off-centre origin: 1 request exhaustive, ce=2"),
                            dict(pres="tensors", nreq=2, ce=1000, requests="CENTRE", label="same options: 2 requests over the keys that use Lambda or the origin"),
                            dict(pres="nomatter", nreq=2, ce=1000, requests="CENTRE", label="same options, no matter supplied: 2 requests over the same keys"),
                            dict(pres="components", nreq=6, ce=3, simulate=(4 if tier == "quick" else 30), seed=seed + 11, emit=False,
                                 label="same options: simulated 6 requests ce=3")], plan3, opts3, request_sets={"CENTRE": [
                                     k for k in g3["keys"] if any(t in k for t in ("null_ray", "angmom", "fromHam", "Hamiltonian", "dtKtrace", "st_Ricci", "Einstein", "Ttrace", "rho_n", "Tdown4"))]})
    CC.execute(run, "C01", g3, plan3, opts3, seed, max_traces=150 if tier == "quick" else 1500)
    # a tetrad other than the default: its first leg is the fluid 4-velocity itself (tetrad_base hands out the cached array)
    opts4 = {"tetrad": "fluid"}
    g4 = X.extract(opts4)
    plan4 = CC.Plan()
    tet = [k for k in g4["keys"] + g4["helpers"] if k in ("Weyl_Psi", "Weyl_invariants", "uup4", "udown4", "hdown4", "hup4", "Tdown4", "rho_n", "eweyl_u_down4",
                                                        "call:null_vector_base", "call:tetrad_base")]
    CC.run_models(run, g4, [dict(pres="tensors", nreq=2, ce=1000, requests="TETRAD", label="option tetrad != quasi-Kinnersley: 2 requests over the tetrad's consumers and the 4-velocity's"),
                            dict(pres="components", nreq=3, ce=2, requests="TETRAD", simulate=(3 if tier == "quick" else 20), seed=seed + 13, emit=False,
                                 label="same option: simulated 3 requests ce=2")], plan4, opts4, request_sets={"TETRAD": tet})
    CC.execute(run, "C01", g4, plan4, opts4, seed, max_traces=60 if tier == "quick" else 600)
    CC.binding_demo(run, graph, seed)
    run.rule = ("histories = shortest history reaching every (key, branch leaf) of the evaluation programs in an exhaustive TLC run of "
                "AurelCache on the graph extracted from the working tree, plus simulated longer behaviours; each is replayed on the real "
                "AurelCore and every returned value compared with a fresh instance; non-trivial = >= 2 requests and (>= 1 eviction during "
                "the history or >= 1 guard test answered 'cached'); distinct by (final key, guard outcomes, eviction happened, settings, inputs)")
    run.assumptions = ["inputs are frozen before the first request (README protocol)",
                       "st_Weyl_down4 and its consumers are compared within the same construction (from Riemann / from E,B) on the generic "
                       "off-shell data: the two constructions agree only on exact solutions of Einstein's equations",
                       "value tolerance 2e-7 relative to the largest magnitude of the reference"]
    return run.finish()


def replay(path):
    from ..cache_engine import Engine
    with open(path) as fh:
        r = json.load(fh)["replay"]
    eng = Engine(r["presentation"], r["opts"], r["seed"])
    out = eng.replay(r["history"], r["clear_every"], r["mem_tiny"], r["freeze"], importance=r.get("importance"))
    bad = [f for f in out["findings"] if f[0] == "C01"]
    for f in bad:
        print(f[1], f[2])
    return 1 if bad else 0
