#!/usr/bin/env python3
"""Regenerates MANIFEST.json from the table below (single source of truth)."""
import json, os
ROOT = os.path.dirname(os.path.dirname(os.path.abspath(__file__)))
ALL = [f"C{i:02d}" for i in range(1, 21)]

# pid -> dict(text, note, technique, design_ref, category)
CHECKS = {}
COMMON_GEO_NOTE = "8 spacetime classes x 1 seed (+2 generic) in quick, x 4 seeds in thorough; fd_order 2/4/6/8 and interior/face/edge/corner probes on a subset; one probe point per grid; a difference above the tolerance is re-examined at half the spacing and accepted only if it shrinks at the order of the scheme; every key is also evaluated after each pre-history from the cache model (first requests of the shortest two-request histories reaching every branch), with everything kept cached. The vacuum=True shortcuts are exercised on two exact vacuum solutions expanded at rational points (Schwarzschild in Painleve-Gullstrand coordinates: unit lapse, shift and K non-zero; in isotropic coordinates: non-unit lapse), whose Ricci-flatness TLC confirms on the supplied jets; vacuum with Lambda != 0 is not exercised. Values are exact rationals lifted from 10 primes. Trusted: TLC, CRT/rational reconstruction (self-tested each run), the polynomial field builder (its K field is cross-checked against the oracle's K at the probe)."
CHECKS["C07"] = dict(
 text="Stencil.tla derives every row of every derivative operator (order 2/4/6/8 x one-sided/periodic/symmetric x N x i) from Lagrange's formula in exact rationals; TLC proves on the spec exactness on polynomials of degree <= p, circulant/mirror structure and support, and enumerates every state; every state is compared with the corresponding row of the complete operator matrix of the real d3x/d3y/d3z (unit-vector probing on non-cubic grids, two spacing triples) and the tensor variants with its component-wise application. By linearity this decides the property for all input fields within the enumerated N range (exhaustive).",
 note="N from the minimum supported size to +8 (quick) / +40 (thorough); rows depend on i only through min(i, N-1-i, p/2), so larger N adds no new row classes. Float comparison within 64 ulp of the exact weight / h. Trusted: TLC, numpy.",
 technique="TLA+ spec of exact stencil rows (Lagrange weights in rationals) model-checked with TLC; every spec state replayed against the real operator matrix",
 design_ref="DESIGN.md 4.5, 5/C07")
CHECKS["C16"] = dict(
 text="Grid.tla is one axis of the grid in exact rationals (point i at min + i*d, exactly N points, last point, closest-to-zero index, trimming lengths); TLC checks these facts on the spec and enumerates every (N, min, spacing, order) over rational sets that include 1/10, 3/10, 1/3, 7/10, 1/7, 1/20, 11/10; every state is used once on each axis of a real FiniteDifference object and compared with its attributes, derived arrays, trimming helpers on 1/2/3-D non-cubic arrays and with the consumers (AurelCore.data_shape, default fields, tetrad_base). Exhaustive over the enumerated parameter sets.",
 note="N in 3..26 (quick) / 3..56 (thorough) x 7 mins x 9 spacings x 4 orders. Coordinates compared within 8 ulp of the rational value. The Cartesian<->spherical round trip and consumer shapes are evaluated by the harness on the spec-enumerated grids (harness-side clauses, not TLC facts).",
 technique="TLA+ spec of the grid in exact rationals model-checked with TLC; every enumerated state replayed against the real FiniteDifference object",
 design_ref="DESIGN.md 4.6, 5/C16")
CHECKS["C01"] = dict(
 text="AurelCache.tla is a small-step model of AurelCore.__getitem__/cleanup_cache/freeze_data (nested evaluation stack, guard tests, age table, eviction policy, object identities); the evaluation programs of all description keys and helper calls (decision trees over the 'X in self.data' guards, with alias / in-place-write flags) are extracted from the working tree at check time. TLC explores all histories of two top-level requests on the real 161-key graph under several cache settings and input presentations (millions of states), checks NoReentrancy, CacheNeverWritten, NoUnexplored, StackBounded, and emits the shortest history reaching every (key, branch) plus simulated longer behaviours; every history is replayed on the real AurelCore on non-degenerate data and every returned value compared with a fresh instance; recorded event streams are validated by TLC against TraceCache.tla (every guard outcome, read, eviction bound to the model).",
 note="Exhaustive for <= 2 top-level requests per setting on the real graph (every guard valuation of every key reached), sampled beyond (simulate). Inputs frozen first (README protocol). Values compared with tolerance 2e-7 relative. st_Weyl_down4 consumers compared within the same construction on off-shell data. Trusted: extractor (cross-checked by trace validation), TLC, numpy.",
 technique="TLA+ small-step cache model on the dependency/guard graph extracted from the code; TLC exhaustive + simulate; behaviours replayed on the real AurelCore against a fresh-instance oracle; recorded traces validated by TLC",
 design_ref="DESIGN.md 4.1, 5/C01")
CHECKS["C02"] = dict(
 text="Heap part of AurelCache.tla (object identity per cached entry, aliases/views, objects held by frames, objects written in place, objects handed to the user); action property NoInPlaceWrite checked by TLC over all two-request histories on the extracted graph (in-place writers are detected by the extractor from byte digests at read time). Behaviours are replayed on the real AurelCore twice: byte digests of all inputs and of everything returned so far after every request, and a second pass with those arrays read-only so that a write raises at its source line. Traces validated by TLC. Argument objects of over_time/save_data/read_data are deep-compared before/after.",
 note="A write is observed as a byte change or a ValueError on a read-only array. Exhaustive for <= 2 requests (no-eviction setting, where aliases live longest), sampled beyond.",
 technique="TLA+ heap/alias model of the cache checked with TLC; behaviours replayed on the real code with byte digests and read-only arrays; traces validated by TLC",
 design_ref="DESIGN.md 4.1, 5/C02")
CHECKS["C03"] = dict(
 text="AurelCache.tla safety layer (ANY set of unfrozen entries older than one calculation may be evicted at any clean-up point; freeze_data between requests) checked exhaustively by TLC on a dependency-closed sub-graph: FrozenNeverEvicted, FrozenNeverAltered, AgeTableSubsetOfCache, OnlyWholeUnfrozenEntries, CountMonotone, PolicyRefinement, and termination of every request under fairness; the code's strain policy (period 1..3, memory threshold below the inputs) on the real extracted graph. Behaviours are replayed on the real AurelCore (frozen entries present and byte-identical, last_accessed subset of data, no exception from cleanup_cache, wall-clock guard, importance overrides) and every nested step is checked by TLC trace validation against the named invariants - also for every AurelCore instance created by the repository's own test files test_aurel_functions.py and test_over_time.py, recorded by a pytest plugin kept in /verif. The set-level abstraction CacheSafety.tla is refined by AurelCache (TLC property AbsSafety) and its invariant (frozen subset of data, age table subset of data, recently touched entries are aged) is shown INDUCTIVE by Apalache (Init => Inv, Inv /\\ Next => Inv', plus a negative control), which lifts the two bookkeeping clauses from TLC's request bound to any number of requests at the abstract level.",
 note="freeze_data() and a load_data() call carrying only part of the frozen inputs may happen between requests (actions Freeze, Load). Safety layer exhaustive for <= 3 requests on a 6-request sub-graph; real graph exhaustive for <= 2 requests with the most aggressive settings; simulate beyond. Liveness only on the sub-graph; on the real code non-termination is caught by the wall-clock guard.",
 technique="TLA+ safety-layer/policy model of cache clean-up checked with TLC (safety + liveness); replay on the real code and TLC trace validation of every nested step",
 design_ref="DESIGN.md 4.1, 5/C03")
CHECKS["C13"] = dict(
 text="AurelStore.tla states the reference semantics of save_data/read_data (disk = iteration -> (variable, level) -> token naming which dictionary/column/position an array came from; a save files under iteration i the entry that belongs to i in the dictionary's 'it' column; None entries/columns skipped; calls selecting a foreign iteration may skip, raise or refuse but never file). TLC checks RoundTrip, ColumnsAligned, SaveIsLocal, NothingLost on the spec and enumerates every sequence of <= 2 saves over 4 dictionaries x 7 it-selections x 3 var-selections x 2 levels; every behaviour is executed with the real save_data (with and without trailing slash), every dataset of every it_*.hdf5 is decoded back to its token (content and dtype) and compared with the spec's disk, 3 read_data queries are compared with the spec's ReadResult, and all argument objects are deep-compared.",
 note="Exhaustive within the stated alphabets for <= 2 saves (quick), 4 saves simulated (thorough). Trusted: h5py, the token encoding (self-checking: a dataset that does not decode is reported).",
 technique="TLA+ reference model of the store model-checked with TLC; every behaviour replayed on the real save_data/read_data with the disk decoded back to spec tokens",
 design_ref="DESIGN.md 4.2, 5/C13")
CHECKS["C11"] = dict(
 text="Chunks.tla models how Carpet splits a grid function (nested rectilinear decompositions, ghost width, chunk numbering orders) and TLC checks that the generator is a partition and enumerates the decompositions (tensor-product and per-slab cuts exhaustively, fully nested by simulation); ETSim.tla models restart sequences with overlapping iteration ranges, layouts and levels, with the reference semantics of a read (latest restart wins, sorted unique iterations, matching times). Every state is materialised as a CarpetIOHDF5-shaped directory whose values encode (variable, restart, iteration, level, x, y, z); the real join_chunks/fixij and read_data (4 layouts) are compared bit-for-bit with the spec's Truth.",
 note="Grids 3x4x3 (quick) and 4x4x4 (thorough), ghost widths 1..3 equal or different per axis, <= 3-4 restarts; every other request goes through the default split_per_it=True path. Output strides may differ between restarts. A one-file-per-process layout with a single chunk is not generated (Carpet does not write it). Extra columns returned for the rest of a file group are accepted. Trusted: the generator (validated by the spec-level partition invariant and by the reader itself on all layouts), h5py.",
 technique="TLA+ model of the simulation directory (decompositions, restarts) enumerated by TLC; every state materialised as HDF5 files and read with the real reader, compared bit-for-bit",
 design_ref="DESIGN.md 4.3, 5/C11")
CHECKS["C12"] = dict(
 text="ReadCache.tla states the reference semantics of the per-iteration read cache over a fixed simulation (two restarts sharing an iteration, two levels): a read returns Truth whatever the history and leaves behind only entries that hold the data of the (variable, iteration, level, restart) they are filed under; TLC checks CacheWellFiled, CacheOnlyGrows, UncachedReadsLeaveNoTrace and enumerates read histories (all pairs over a reduced alphabet, simulated sequences of 4 over 80 queries: iteration subsets, component vs tensor names, levels, cached/uncached interleaved). Each history is replayed with the real read_data on generated directories in the four layouts; after every call each returned array is compared with the stored data and every dataset of every cache file is decoded and compared with what it is filed under.",
 note="Exhaustive for 2 reads over 48 queries (iteration subsets whose hash-set order is not ascending; component, tensor and mixed tensor+component names), 3 reads over 24 (thorough), simulated beyond. The simulation directory is static during a history. Trusted: generator, h5py.",
 technique="TLA+ reference model of the read cache enumerated by TLC; histories replayed on the real read_data with the on-disk cache decoded after every call",
 design_ref="DESIGN.md 4.2, 5/C12")
CHECKS["C18"] = dict(
 text="Catalogue.tla models a simulation directory that grows by whole restarts (three shapes incl. single-iteration restarts, level-dependent strides, continuing or re-running from the previous start) and the catalogue state (append-only record list of iterations.txt, content.txt per restart) under every interleaving of iterations(skip_last)/read_iterations()/get_content(restart, overwrite) with new restarts; TLC checks append-only/no-duplicate/records-exist/IncrementalEqualsFresh and enumerates the behaviours. Each behaviour is replayed on generated directories: returned structures equal Scan(disk) per restart, iterations.txt and content.txt parse back to what was returned, repeated calls are identities, 'overall' covers exactly the union of the restarts' iterations, the incrementally built catalogue equals a fresh scan of a copy; simulation names contain 'restart', 'arange', 'rl'. Dataset-key, file-name and checkpoint-name parsing is inverted over enumerated component alphabets.",
 note="1, 2 or 12 refinement levels (two-digit level numbers), variable names with brackets. <= 3 restarts and 4 steps exhaustive (quick replays a 1-in-k subsample of ~2500 of the enumerated behaviours, thorough ~20000 plus simulated 7-step behaviours with 4 restarts). A raising first call leaves an empty iterations.txt which read_iterations() parses as {} (modelled, not asserted against). Restart directories are immutable once written.",
 technique="TLA+ model of the growing simulation directory and catalogue files enumerated by TLC; behaviours replayed on generated directories with the real iterations/read_iterations/get_content and the files re-parsed",
 design_ref="DESIGN.md 4.3, 5/C18")
CHECKS["C14"] = dict(
 text="OverTime.tla describes the table produced by the time-series driver symbolically (a cell is In(column, step), Val(variable, step) = what a fresh AurelCore on that step's inputs returns, or Est(estimator, column, step)), the driver call as the code's phases (clean requests, compute, estimates on every scalar column lacking them, sort by temporal key) and the environment action Shuffle; TLC checks SplitInvariant (every admissible split of (V, E) over successive calls ends in the table of the single call), NoColumnLost, InputsPreserved, EstimatesOnlyOfScalars over all row orders, temporal keys, requests and splits. Behaviours are replayed on the real over_time with three distinct non-trivial time steps; every cell of the final table is compared with a fresh per-step computation / the estimator re-applied / the input bit-for-bit; plus runs with aggressive cache options while a heavy custom variable computes, and all 26 documented estimators against independent definitions.",
 note="<= 2 driver steps exhaustive in the model (83k states), replay of ~1500 (quick) / all deduplicated (thorough) behaviours plus simulated 4-step behaviours. Admissible split: every estimate is passed in a call made when or after the last scalar column appears. 3 time steps, 7^3 grid.",
 technique="TLA+ symbolic-table model of over_time checked with TLC (split invariance); behaviours replayed on the real driver against per-step fresh recomputation",
 design_ref="DESIGN.md 4.4, 5/C14")
CHECKS["C15"] = dict(
 text="Riemannian.tla states the textbook definitions (inverse by cofactors, Christoffel symbols of both kinds, R^a_bcd, R_abcd, Ricci, scalar, Einstein) on truncated Taylor jets of the metric in exact arithmetic modulo primes (Fp.tla, Jet.tla); TLC evaluates them for a list of 2-, 3- and 4-dimensional polynomial metrics (diagonal, one off-diagonal pair, dense), checks Riemann symmetries, first Bianchi identity, g g^-1 = 1 and metric compatibility on the result, and the harness lifts the residues of 8 primes to rationals (CRT + rational reconstruction). Each of the ten quantities of the real AurelCoreSymbolic, substituted at the rational probe point, is compared with the exact value for both simplify flags and both cache states; the request-order part uses the cache model AurelCache on the symbolic core's extracted graph (all histories of <= 3 requests) replayed on the real object.",
 note="simplify=True only on 2-D and diagonal metrics in quick (sympy.simplify on dense 3-D/4-D metrics takes minutes; time-outs are counted as not explored). Values at one generic rational point per metric (a rational identity that holds at a generic point holds identically with overwhelming probability, but this is sampling). Tolerance 1e-9 relative.",
 technique="TLA+ textbook tensor calculus on jets in exact modular arithmetic evaluated by TLC (oracle validated by identities), lifted by CRT and compared with the real symbolic core; TLA+ cache model for request orders",
 design_ref="DESIGN.md 4.7, 5/C15")
CHECKS["C04"] = dict(
 text='ThreePlusOne.tla computes, from the jets of lapse, shift and spatial metric in (t,x,y,z), the 4-metric, its inverse and determinant, the 4-D Christoffel symbols, Riemann in three index positions, Ricci, scalar, Einstein and Kretschmann from the textbook 4-D definitions in exact arithmetic modulo primes; TLC checks Riemann symmetries, first Bianchi identity, metric compatibility, g g^-1 = 1 and det g = -alpha^2 det gamma on every oracle state. The real AurelCore is run on polynomial fields carrying the same jets (K_ij evaluated from its definition, T := (G + Lambda g)/kappa from the oracle) and compared at the probe point.',
 note="8 spacetime classes x 1 seed (+2 generic) in quick, x 4 seeds in thorough; fd_order 2/4/6/8 and interior/face/edge/corner probes on a subset; one probe point per grid; a difference above the tolerance is re-examined at half the spacing and accepted only if it shrinks at the order of the scheme. The vacuum=True shortcuts are exercised on two exact vacuum solutions expanded at rational points (Schwarzschild in Painleve-Gullstrand coordinates: unit lapse, shift and K non-zero; in isotropic coordinates: non-unit lapse), whose Ricci-flatness TLC confirms on the supplied jets; vacuum with Lambda != 0 is not exercised. Values are exact rationals lifted from 10 primes. Trusted: TLC, CRT/rational reconstruction (self-tested each run), the polynomial field builder (its K field is cross-checked against the oracle's K at the probe).",
 technique="TLA+ textbook 3+1/4-D tensor calculus on jets in exact modular arithmetic evaluated by TLC (oracle validated by identities), lifted by CRT; real code run on polynomial fields with the same jets and compared at the probe point with convergence re-examination",
 design_ref="DESIGN.md 4.7, 5/C04")
CHECKS["C06"] = dict(
 text='ThreePlusOne.tla: every smooth 4-metric is an exact solution for kappa T := G + Lambda g; TLC checks at spec level that the Hamiltonian and momentum constraints of the oracle vanish identically, and computes the TRUE coordinate-time derivatives of K, phi, gamma^ij, gammatilde_ij, Atilde_ij, Gammatilde^i by differentiating the jets of their definitions (no evolution equation). The real Hamiltonian/Momentum (must vanish), rho_n_fromHam, fluxup3_n_fromMom and the six dt-quantities are compared at the probe point for any lapse and shift, Lambda in {0, 1/5}.',
 note="8 spacetime classes x 1 seed (+2 generic) in quick, x 4 seeds in thorough; fd_order 2/4/6/8 and interior/face/edge/corner probes on a subset; one probe point per grid; a difference above the tolerance is re-examined at half the spacing and accepted only if it shrinks at the order of the scheme. The vacuum=True shortcuts are exercised on two exact vacuum solutions expanded at rational points (Schwarzschild in Painleve-Gullstrand coordinates: unit lapse, shift and K non-zero; in isotropic coordinates: non-unit lapse), whose Ricci-flatness TLC confirms on the supplied jets; vacuum with Lambda != 0 is not exercised. Values are exact rationals lifted from 10 primes. Trusted: TLC, CRT/rational reconstruction (self-tested each run), the polynomial field builder (its K field is cross-checked against the oracle's K at the probe).",
 technique="TLA+ textbook 3+1/4-D tensor calculus on jets in exact modular arithmetic evaluated by TLC (oracle validated by identities), lifted by CRT; real code run on polynomial fields with the same jets and compared at the probe point with convergence re-examination",
 design_ref="DESIGN.md 4.7, 5/C06")
CHECKS["C10"] = dict(
 text="ThreePlusOne.tla computes the Weyl tensor (Riemann minus Ricci parts) and E_ij, B_ij as its contractions with the unit normal; TLC checks trace-freeness, Riemann symmetries of Weyl, symmetry/trace-freeness of E and B. The real st_Weyl_down4 is compared in both cache states (from E/B; from a cached Riemann tensor), eweyl_n/bweyl_n and eweyl_u/bweyl_u with the oracle's contractions, Weyl_Psi with the oracle's Weyl tensor on the returned null tetrad, the triad/tetrad for orthonormality and I, J for tetrad independence where both tetrads are orthonormal.",
 note="8 spacetime classes x 1 seed (+2 generic) in quick, x 4 seeds in thorough; fd_order 2/4/6/8 and interior/face/edge/corner probes on a subset; one probe point per grid; a difference above the tolerance is re-examined at half the spacing and accepted only if it shrinks at the order of the scheme. The vacuum=True shortcuts are exercised on two exact vacuum solutions expanded at rational points (Schwarzschild in Painleve-Gullstrand coordinates: unit lapse, shift and K non-zero; in isotropic coordinates: non-unit lapse), whose Ricci-flatness TLC confirms on the supplied jets; vacuum with Lambda != 0 is not exercised. Values are exact rationals lifted from 10 primes. Trusted: TLC, CRT/rational reconstruction (self-tested each run), the polynomial field builder (its K field is cross-checked against the oracle's K at the probe).",
 technique="TLA+ textbook 3+1/4-D tensor calculus on jets in exact modular arithmetic evaluated by TLC (oracle validated by identities), lifted by CRT; real code run on polynomial fields with the same jets and compared at the probe point with convergence re-examination",
 design_ref="DESIGN.md 4.7, 5/C10")
CHECKS["C19"] = dict(
 text="ThreePlusOne.tla gives, for observers at rest in the slicing, theta = -K, sigma_ij = -A_ij, 1/2 A_ij A^ij, a_i = d_i ln(alpha), n^mu and nabla_mu n_nu from the definitions (time-dependent non-unit lapse, non-zero shift); the real uup4, theta, sheardown4, shear2, omegadown4, omega2, accelerationdown4, st_covd_udown4 are compared at the probe point and a_mu n^mu = 0, sigma_mu_nu n^nu = 0 evaluated on the code's outputs.",
 note="8 spacetime classes x 1 seed (+2 generic) in quick, x 4 seeds in thorough; fd_order 2/4/6/8 and interior/face/edge/corner probes on a subset; one probe point per grid; a difference above the tolerance is re-examined at half the spacing and accepted only if it shrinks at the order of the scheme. The vacuum=True shortcuts are exercised on two exact vacuum solutions expanded at rational points (Schwarzschild in Painleve-Gullstrand coordinates: unit lapse, shift and K non-zero; in isotropic coordinates: non-unit lapse), whose Ricci-flatness TLC confirms on the supplied jets; vacuum with Lambda != 0 is not exercised. Values are exact rationals lifted from 10 primes. Trusted: TLC, CRT/rational reconstruction (self-tested each run), the polynomial field builder (its K field is cross-checked against the oracle's K at the probe).",
 technique="TLA+ textbook 3+1/4-D tensor calculus on jets in exact modular arithmetic evaluated by TLC (oracle validated by identities), lifted by CRT; real code run on polynomial fields with the same jets and compared at the probe point with convergence re-examination",
 design_ref="DESIGN.md 4.7, 5/C19")
CHECKS["C05"] = dict(
 text="ThreePlusOne.tla computes, from the jets of the spatial metric, the shift and of test scalar / vector / rank-2 / 4-vector fields, the spatial Christoffel symbols, Riemann, Ricci and scalar, the Christoffel symbols and Ricci tensor of the conformal metric, the covariant derivative for every index pattern ('', u, d, uu, dd, ud, du), all divergences, the curl, the spacetime covariant derivative of 4-vectors and the Lie derivative along the shift for every supported rank / index pattern with density weights {0, 1/6, 2/3, -2/3, 1}, from their textbook definitions in exact arithmetic (TLC checks metric compatibility and the Riemann symmetries on the oracle); every real key and helper call (35 quantities) is compared at the probe point, also after every pre-history from the cache model; D gamma = 0, lowering commutes with D and the Lie_beta argument-validation table are evaluated on the code.",
 note=COMMON_GEO_NOTE,
 technique="TLA+ textbook tensor calculus on jets in exact modular arithmetic evaluated by TLC, lifted by CRT; real helpers run on polynomial fields with the same jets and compared at the probe point with convergence re-examination",
 design_ref="DESIGN.md 4.7, 5/C05")
CHECKS["C08"] = dict(
 text="Pointwise.tla, in exact integer / rational arithmetic: (matrix) every symmetric 3x3 and 4x4 matrix over a small entry set with the Leibniz determinant and the cofactor adjugate (TLC checks adj g = det 1) - a complete interpolation grid for polynomials of degree <= 2 per entry, so agreement of determinant3/4 and inverse3/4 on the grid proves the polynomial identities; (divide) the case table of safe_division over operand kinds x zero/non-zero values with the reference a/b or 0; (place) the index placement of the 3+1 Riemann pieces (TLC checks it reproduces the Riemann symmetries); (metric) 3+1 <-> 4-D metric algebra at integer points in exact rationals (TLC checks det g = -alpha^2 det gamma, n.n = -1, trace-freeness). Each TLC state is one point of a grid on which the real functions are evaluated; 14 identities and the Riemann/Weyl symmetries are evaluated on the code's outputs, with the inputs handed over as tensors, as components and as partial components.",
 note="4x4 matrices over 2 values in quick (1024 states), 3 values in thorough (59049: the complete interpolation grid). 120 / 600 metric points. Float comparison within 1e-11. Pair symmetry and Bianchi of the FD-computed curvature are checked to the discretisation error (2e-4), antisymmetry in the last index pair to 1e-8.",
 technique="TLA+ exact integer/rational pointwise algebra enumerated by TLC (complete interpolation grids, case tables); every state evaluated on the real functions",
 design_ref="DESIGN.md 4.7, 5/C08")
CHECKS["C09"] = dict(
 text="Fluid.tla computes, at points with exact rational lapse, shift, non-diagonal metric, velocity, rest-mass density, internal energy and pressure, u^mu = W(n^mu + v^mu), u_mu, h_mu_nu, T_mu_nu = rho0 h u_mu u_nu + p g_mu_nu and its Eulerian projections in exact arithmetic modulo primes (everything expressed through the rational W^2), and TLC checks on every state the closed forms E = rho0 h W^2 - p, S_i = rho0 h W^2 v_i, S_ij = rho0 h W^2 v_i v_j + p gamma_ij, T = 3p - rho = S - E, u.u = -1, h u = 0. The real keys are compared at every grid point (one TLC state per point), with fluid variables given and with T supplied directly, both Ttrace branches, every key read again at the end; projector, conserved densities and the two derivations of the spatial Ricci tensor from T are evaluated on the code's outputs.",
 note="60 points (quick) / 400 (thorough) in 5 classes (fluid at rest, zero shift, unit lapse, generic). W is the float square root of the exact W^2. Tolerance 1e-10 relative.",
 technique="TLA+ exact fluid algebra modulo primes evaluated by TLC (closed forms checked as invariants), lifted by CRT; every state compared with the real keys on a grid",
 design_ref="DESIGN.md 4.7, 5/C09")

NA = {
 "C17": "Closed-form transcendental solutions (sin, sinh, 2F1, t^(2/3)): no state, history or case analysis for a TLA+ specification to enumerate, and TLC has neither reals nor transcendental functions; a CAS/interval technique would be a different family (DESIGN.md section 6).",
 "C20": "Orthonormality over the sphere, band-limited reconstruction and Psi4_lm are quadrature/interpolation convergence statements about transcendental functions; nothing for an explicit-state model to explore (DESIGN.md section 6).",
}
NOT_YET = "check not built yet in this round (planned, see DESIGN.md section 9)"

def main():
    checks = []
    for pid in ALL:
        if pid in CHECKS:
            c = CHECKS[pid]
            checks.append({
                "property_id": pid,
                "quick_cmd": f"./check {pid} quick",
                "thorough_cmd": f"./check {pid} thorough",
                "evidence_file": f"/verif/evidence/{pid}.json",
                "replay_cmd_template": f"./check {pid} --replay {{path}}",
                "engine": "tlc",
                "level_claimed": {"category": c.get("category", "model_checking"), "text": c["text"], "design_ref": c["design_ref"]},
                "level_note": c["note"],
                "technique": c["technique"],
            })
    na = []
    for pid in ALL:
        if pid in CHECKS:
            continue
        na.append({"property_id": pid, "reason": NA.get(pid, NOT_YET)})
    m = {
        "version": 1,
        "setup_cmd": "./setup.sh",
        "hooks": {
            "guard": "AUREL_VERIF",
            "enable": "no source hooks in /repo: the harness wraps AurelCore / reading / time functions at run time when AUREL_VERIF=1 (set by ./check); PYTHONPATH=/repo/src so the current working tree is imported",
            "baseline_off_cmd": "cd /repo && env -u AUREL_VERIF /venv/bin/python -m pytest -ra -q -p no:cacheprovider --timeout=900 --continue-on-collection-errors",
            "source_commits": [],
            "add_only": True,
        },
        "engines": [
            {"name": "tlc", "path": "/verif/spec", "serves_properties": sorted(CHECKS),
             "kind_free_text": "explicit TLA+ specifications checked with TLC 1.8 (exhaustive small scope + -simulate), bound to the implementation by replay of TLC-enumerated states/behaviours into the real code and by TLC validation of traces recorded from the real code"},
        ],
        "checks": checks,
        "not_applicable": na,
        "notes": "All checks are './check <id> <tier>' (Python harness in /verif/harness, specs in /verif/spec). Exit 0 held / 1 unlisted violation / 2 machinery failure. Known genuine defects: /verif/known_findings.json.",
    }
    with open(os.path.join(ROOT, "MANIFEST.json"), "w") as fh:
        json.dump(m, fh, indent=1)
    try:
        import jsonschema
        jsonschema.validate(m, json.load(open("/root/.vp/MANIFEST.schema.json")))
        print("MANIFEST.json valid;", len(checks), "checks,", len(na), "not_applicable")
    except ImportError:
        print("written (jsonschema not available to validate)")

if __name__ == "__main__":
    main()
