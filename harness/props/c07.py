"""C07: finite-difference operators are the stated-order derivative everywhere.

spec/stencil/Stencil.tla computes every row of every operator from Lagrange's
formula in exact rationals; TLC checks exactness/circulant/mirror/support on
the spec and enumerates every (order, mode, N, i).  Here every state is
compared with the corresponding row of the *complete operator matrix* of the
real code (obtained by differentiating unit vectors), for each axis on
non-cubic grids with unequal spacings, and the tensor variants are compared
with the component-wise application of that matrix.
"""
import json
import os
import sys
from fractions import Fraction

import numpy as np

from ..common import Run
from ..tlc import run_tlc

CFG = """SPECIFICATION Spec
CONSTANTS
  Orders = {orders}
  Modes = {modes}
  NExtra = {nextra}
  Emit = TRUE
INVARIANT ExactOnPolynomials
INVARIANT RowSumZero
INVARIANT Circulant
INVARIANT PeriodicInterior
INVARIANT SymmetricLeft
INVARIANT SymmetricRight
INVARIANT Support
INVARIANT WeightSymmetry
INVARIANT AllRational
INVARIANT EmitRow
"""

MODE_ARG = {"onesided": "no boundary", "periodic": "periodic", "symmetric": "symmetric"}
SPACINGS = [(0.5, 0.25, 0.125), (0.1, 0.3, 0.7)]


def min_n(p, mode):
    return {"onesided": 3 * p // 2, "periodic": p // 2, "symmetric": p // 2 + 1}[mode]


def make_fd(fdmod, shape, h, p, mode):
    param = {"Nx": shape[0], "Ny": shape[1], "Nz": shape[2],
             "xmin": -1.0, "ymin": 0.5, "zmin": 2.0, "dx": h[0], "dy": h[1], "dz": h[2]}
    return fdmod.FiniteDifference(param, boundary=MODE_ARG[mode], fd_order=p, verbose=False)


def operator_matrix(fdmod, p, mode, N, axis, h):
    """Complete matrix of d3{x,y,z} of the real code on a non-cubic grid."""
    shape = [N + 1, N + 2, N + 3]
    shape[axis] = N
    b_axis = (axis + 1) % 3          # batch axis carrying the unit vectors
    c_axis = (axis + 2) % 3
    shape[b_axis] = N + 1            # one extra all-zero column
    shape[c_axis] = 2
    fd = make_fd(fdmod, shape, h, p, mode)
    # np.arange in the constructor may produce N+1 points for some spacings; derivative
    # functions use param['N*'] so this does not matter here (it is C16's business).
    F = np.zeros(shape)
    for a in range(N):
        idx = [slice(None)] * 3
        idx[axis] = a
        idx[b_axis] = a
        F[tuple(idx)] = np.array([1.0, 3.0])  # along c_axis: two different scalings
    d = [fd.d3x, fd.d3y, fd.d3z][axis](F)
    assert d.shape == tuple(shape), (d.shape, shape)
    d = np.moveaxis(d, [axis, b_axis, c_axis], [0, 1, 2])
    return d, fd  # d[i, b, c] = M[i, b] * scale_c / h


def check_matrix(run, fdmod, p, mode, N, rows):
    """rows: list (index i) of list (index j) of Fraction. Returns number of operator matrices compared."""
    M = np.array([[float(x) for x in r] for r in rows])
    wmax = np.abs(M).max() if M.size else 1.0
    n_ok = 0
    for h in SPACINGS:
        for axis in range(3):
            try:
                d, fd = operator_matrix(fdmod, p, mode, N, axis, h)
            except Exception as ex:  # the property says these sizes are supported
                run.violation({"clause": "OperatorDefined", "p": p, "mode": mode, "axis": "xyz"[axis],
                               "exc": type(ex).__name__},
                              f"d3{'xyz'[axis]} raised {type(ex).__name__} for supported size N={N} (order {p}, {mode})",
                              {"p": p, "mode": mode, "N": N, "axis": axis, "h": h, "error": str(ex)})
                continue
            tol = 64 * np.finfo(float).eps * max(wmax, 1.0) / h[axis]
            bad = None
            for c, scale in enumerate([1.0, 3.0]):
                got = d[:, :N, c]
                exp = M * scale / h[axis]
                err = np.abs(got - exp)
                if err.max() > tol * scale:
                    i, j = np.unravel_index(np.argmax(err), err.shape)
                    bad = (int(i), int(j), float(got[i, j] * h[axis] / scale), str(rows[i][j]))
                    break
                if np.abs(d[:, N, c]).max() != 0.0:
                    bad = ("zero-column", N, float(np.abs(d[:, N, c]).max()), "0")
                    break
            if bad:
                iclass = min(bad[0], N - 1 - bad[0], p // 2) if isinstance(bad[0], int) else -1
                run.violation({"clause": "RowEqualsSpec", "p": p, "mode": mode, "axis": "xyz"[axis],
                               "iclass": iclass, "edge": ("left" if isinstance(bad[0], int) and bad[0] < N / 2 else "right")},
                              f"d3{'xyz'[axis]} order {p} {mode} N={N}: output sample {bad[0]} has coefficient "
                              f"{bad[2]!r}/h on input sample {bad[1]}, the exact p-th order weight is {bad[3]}",
                              {"p": p, "mode": mode, "N": N, "axis": axis, "h": h, "i": bad[0], "j": bad[1],
                               "got_times_h": bad[2], "expected": bad[3]})
            else:
                n_ok += 1
    return n_ok


def check_tensor_variants(run, fdmod, p, mode, N, rows, rng):
    """d3_scalar, d3_rank{1,2,3}tensor and d3{x,y,z}_rank* act component by component."""
    M = np.array([[float(x) for x in r] for r in rows])
    shape = (N, N, N)
    # different N per axis would need three matrices; use one cubic grid with unequal spacings and
    # one non-cubic grid per call below
    h = (0.5, 0.25, 2.0)
    fd = make_fd(fdmod, shape, h, p, mode)

    def D(axis, f):  # spec: apply M along `axis` of the last three dims
        g = np.tensordot(M, np.moveaxis(f, f.ndim - 3 + axis, 0), axes=(1, 0)) / h[axis]
        return np.moveaxis(g, 0, f.ndim - 3 + axis)

    n = 0
    cases = {
        "d3_scalar": ((), lambda f: np.array([D(0, f), D(1, f), D(2, f)])),
        "d3_rank1tensor": ((3,), lambda f: np.array([D(0, f), D(1, f), D(2, f)])),
        "d3x_rank1tensor": ((3,), lambda f: D(0, f)),
        "d3y_rank1tensor": ((3,), lambda f: D(1, f)),
        "d3z_rank1tensor": ((3,), lambda f: D(2, f)),
        "d3_rank2tensor": ((3, 3), lambda f: np.array([D(0, f), D(1, f), D(2, f)])),
        "d3x_rank2tensor": ((3, 3), lambda f: D(0, f)),
        "d3y_rank2tensor": ((3, 3), lambda f: D(1, f)),
        "d3z_rank2tensor": ((3, 3), lambda f: D(2, f)),
        "d3_rank3tensor": ((3, 3, 3), lambda f: np.array([D(0, f), D(1, f), D(2, f)])),
        "d3x_rank3tensor": ((3, 3, 3), lambda f: D(0, f)),
        "d3y_rank3tensor": ((3, 3, 3), lambda f: D(1, f)),
        "d3z_rank3tensor": ((3, 3, 3), lambda f: D(2, f)),
        "d3x": ((), lambda f: D(0, f)),
        "d3y": ((), lambda f: D(1, f)),
        "d3z": ((), lambda f: D(2, f)),
        "d3_rank1tensor_4": ((4,), lambda f: np.array([D(0, f), D(1, f), D(2, f)])),
        "d3_rank2tensor_4": ((4, 4), lambda f: np.array([D(0, f), D(1, f), D(2, f)])),
    }
    for ncase, (name, (lead, ref)) in enumerate(cases.items()):
        f = rng.integers(-9, 10, size=lead + shape).astype(float)
        if (ncase + N) % 2 == 0:
            # the operators are linear with real weights: a complex field (Weyl scalars, harmonics) is differentiated part by part
            f = f + 1j * rng.integers(-9, 10, size=lead + shape).astype(float)
        f0 = f.copy()
        meth = getattr(fd, name.replace("_4", ""))
        try:
            got = meth(f)
        except Exception as ex:
            run.violation({"clause": "TensorComponentwise", "fn": name, "exc": type(ex).__name__},
                          f"{name} raised {type(ex).__name__}: {ex}", {"p": p, "mode": mode, "N": N})
            continue
        exp = ref(f)
        scale = np.abs(exp).max() + 1.0
        if got.shape != exp.shape or np.abs(got - exp).max() > 1e-11 * scale:
            run.violation({"clause": "TensorComponentwise", "fn": name, "p": p, "mode": mode, "complex": bool(np.iscomplexobj(f))},
                          f"{name} (order {p}, {mode}, N={N}, {'complex' if np.iscomplexobj(f) else 'real'} field) is not the component-wise application of the scalar operator: "
                          f"shape {got.shape} vs {exp.shape}, max abs diff "
                          f"{(np.abs(got - exp).max() if got.shape == exp.shape else 'n/a')}",
                          {"p": p, "mode": mode, "N": N, "fn": name})
        elif not np.array_equal(f, f0):
            run.violation({"clause": "TensorComponentwise", "fn": name, "inplace": True},
                          f"{name} modified its argument", {"p": p, "mode": mode, "N": N})
        else:
            n += 1
    return n


def check_scales(run, fdmod, p, mode, N, rows, rng):
    """The operator is the LINEAR map of the specification whatever the scale of the field: a perturbation on a large
    background, a field in tiny units, a huge field - the matrix applied to it, up to round-off on the field's own size."""
    M = np.array([[float(x) for x in r] for r in rows])
    # round-off is governed by the raw stencil weights (up to ~30 for the one-sided 8th-order scheme), which a periodic matrix on a
    # tiny grid folds onto each other
    wmax = max(np.abs(M).max() if M.size else 1.0, 30.0)
    shape = (N, N + 1, N + 2)
    h = (0.25, 0.5, 0.125)
    n = 0
    for axis in range(3):
        sh = list(shape)
        sh[axis], sh[0] = sh[0], sh[axis]
        fd = make_fd(fdmod, tuple(sh), h, p, mode)
        g = rng.integers(-9, 10, size=tuple(sh)).astype(float)
        for label, f in (("perturbation 1e-7 on a background of 1", 1.0 + 1e-7 * g), ("amplitude 1e-10", 1e-10 * g),
                         ("amplitude 1e+9", 1e9 * g), ("perturbation 1e-9 on a background of -300", -300.0 + 1e-9 * g)):
            got = [fd.d3x, fd.d3y, fd.d3z][axis](f.copy())
            exp = np.moveaxis(np.tensordot(M, np.moveaxis(f, axis, 0), axes=(1, 0)) / h[axis], 0, axis)
            tol = 256 * np.finfo(float).eps * wmax * np.abs(f).max() * (p + 1) / h[axis]
            err = np.abs(got - exp).max() if got.shape == exp.shape else float("inf")
            if err > tol:
                run.violation({"clause": "LinearAtEveryScale", "p": p, "mode": mode, "axis": "xyz"[axis], "field": label},
                              f"d3{'xyz'[axis]} order {p} {mode} N={N} on a field with {label}: differs from the specified matrix applied to the field by "
                              f"{err:.3e} (the derivative itself is of size {np.abs(exp).max():.3e}, round-off allows {tol:.1e})",
                              {"p": p, "mode": mode, "N": N, "axis": axis, "field": label})
            else:
                n += 1
                run.count(("scale", p, mode, "xyz"[axis], label))
    return n


def run(tier, seed):
    run = Run("C07", tier, seed)
    import aurel.finitedifference as fdmod
    rng = np.random.default_rng(seed)
    nextra = 8 if tier == "quick" else 40
    cfg = CFG.format(orders="{2,4,6,8}", modes='{"onesided","periodic","symmetric"}', nextra=nextra)
    res = run_tlc("Stencil", cfg, ["stencil", "exact"], workers=None, timeout=3000)
    if res.violated:
        raise RuntimeError(f"Stencil spec violates its own invariant {res.violated} (spec bug): machinery failure")
    run.add_tlc(res, f"Stencil exhaustive NExtra={nextra}")
    # group states by operator
    ops = {}
    for rec in res.printed:
        key = (rec["p"], rec["mode"], rec["N"])
        ops.setdefault(key, {})[rec["i"]] = [Fraction(a, b) for a, b in rec["row"]]
    nstates = sum(len(v) for v in ops.values())
    if nstates != res.distinct:
        raise RuntimeError(f"TLC emitted {nstates} rows for {res.distinct} states")
    tensor_done = set()
    for (p, mode, N), rows_d in sorted(ops.items()):
        assert sorted(rows_d) == list(range(N)), (p, mode, N)
        rows = [rows_d[i] for i in range(N)]
        ok = check_matrix(run, fdmod, p, mode, N, rows)
        run.traces += ok
        for i in range(N):
            for axis in "xyz":
                run.count((p, mode, axis, min(i, N - 1 - i, p // 2), "L" if i < N - 1 - i else "R", N if N <= p + 1 else "big"))
        # tensor variants: smallest N, N = p+2, and largest N per (p, mode) (N<=14 to bound cost)
        want = {min_n(p, mode), max(min_n(p, mode), p + 2)}
        if N in want and (p, mode, N) not in tensor_done and N >= 2:
            tensor_done.add((p, mode, N))
            run.traces += check_tensor_variants(run, fdmod, p, mode, N, rows, rng)
            run.traces += check_scales(run, fdmod, p, mode, N, rows, rng)
        if len(run.samples) < 6 and N == min_n(p, mode) + 1:
            run.sample({"state": {"p": p, "mode": mode, "N": N, "i": 0},
                        "spec_row_i0": [str(x) for x in rows[0]],
                        "compared_with": "row 0 of the d3x/d3y/d3z matrices of FiniteDifference on non-cubic grids"})
    # below-minimum sizes: information only
    below = []
    for p in (2, 4, 6, 8):
        N = 3 * p // 2 - 1
        try:
            d, _ = operator_matrix(fdmod, p, "onesided", N, 0, SPACINGS[0])
            below.append({"p": p, "N": N, "outcome": "returned numbers"})
        except Exception as ex:
            below.append({"p": p, "N": N, "outcome": "raised " + type(ex).__name__})
    run.info["below_minimum_size_onesided"] = below
    run.exhaustive = True
    run.rule = ("TLC enumerates every (order p in {2,4,6,8}, mode, N in MinN..MinN+%d, i); each state is compared with the row of the real "
                "operator matrix for each axis and two spacing triples; a case is distinct by (p, mode, axis, distance-to-edge class, side, "
                "small/large N); every case is non-trivial (each row is a different linear form)") % nextra
    run.assumptions = ["numpy float arithmetic: a weight w applied to a unit sample and multiplied by 1/h is within 64 ulp of w/h",
                       "minimum supported sizes: 3p/2 (one-sided), p/2 (periodic), p/2+1 (symmetric)"]
    return run.finish()


def replay(path):
    import aurel.finitedifference as fdmod
    with open(path) as fh:
        r = json.load(fh)["replay"]
    d, fd = operator_matrix(fdmod, r["p"], r["mode"], r["N"], r["axis"], tuple(r["h"]))
    if "i" in r and isinstance(r["i"], int):
        got = d[r["i"], r["j"], 0] * r["h"][r["axis"]]
        exp = float(Fraction(r["expected"]))
        print(f"coefficient got {got!r} expected {exp!r}")
        return 0 if abs(got - exp) < 1e-12 * max(1, abs(exp)) else 1
    return 0
