"""Replay of AurelCache behaviours on the real AurelCore, with direct observables and trace recording.

Shared by C01 (transparency), C02 (no in-place writes) and C03 (frozen inputs, bookkeeping).
Each replay executes one history (sequence of top-level requests) under one cache setting on
non-degenerate data and evaluates, after every request:

  C01  ReturnedEqualsFresh   the value equals what a fresh instance holding only the inputs returns
  C02  NoInPlaceWrite        byte digests of the inputs and of everything returned so far are unchanged
  C03  FrozenNeverEvicted / FrozenNeverAltered / AgeTableSubsetOfCache / CleanupNeverRaises /
       CleanupTerminates (wall-clock guard)

The recorded event stream is returned for TLC trace validation (spec/cache/TraceCache.tla).
"""
import hashlib
import json
import multiprocessing as mp
import os
import signal
import time

import numpy as np

from . import extract as X
from . import fields, recorder

REL_TOL = 2e-7      # relative to the largest magnitude of the reference (round-off through nested FD)
ABS_TOL = 1e-12     # two values that are both zero up to round-off (e.g. the Ricci tensor with vacuum=True) are equal
WALL_GUARD_S = 180


def digest(v):
    return X.digest(v)


def arrays_of(v):
    return X.arrays_of(v)


def max_diff(a, b):
    """(max abs difference, scale) for nested containers of arrays; None if structures differ."""
    if a is None or b is None:
        return (0.0, 1.0) if (a is None and b is None) else None
    if isinstance(a, (list, tuple)):
        if not isinstance(b, (list, tuple)) or len(a) != len(b):
            return None
        worst, scale = 0.0, 0.0
        for x, y in zip(a, b):
            r = max_diff(x, y)
            if r is None:
                return None
            worst, scale = max(worst, r[0]), max(scale, r[1])
        return worst, scale
    if isinstance(a, dict):
        if not isinstance(b, dict) or set(a) != set(b):
            return None
        worst, scale = 0.0, 0.0
        for k in a:
            r = max_diff(a[k], b[k])
            if r is None:
                return None
            worst, scale = max(worst, r[0]), max(scale, r[1])
        return worst, scale
    a = np.asarray(a)
    b = np.asarray(b)
    if a.shape != b.shape:
        return None
    if a.size == 0:
        return 0.0, 1.0
    fa, fb = np.isfinite(a), np.isfinite(b)
    if not np.array_equal(fa, fb):
        return float("inf"), 1.0
    if not fa.all():
        a = np.where(fa, a, 0)
        b = np.where(fb, b, 0)
    return float(np.abs(a - b).max()), float(max(np.abs(b).max(), 1e-300))


def fd_digest(fd):
    """Digests of the arrays a FiniteDifference object exposes."""
    out = {}
    for a in ("xarray", "yarray", "zarray", "x", "y", "z", "r", "theta", "phi", "cartesian_coords", "spherical_coords"):
        v = getattr(fd, a, None)
        if v is not None:
            out[a] = digest(v)
    return out


class Timeout(Exception):
    pass


def _alarm(signum, frame):
    raise Timeout()


class Engine:
    def __init__(self, presentation="tensors", opts=None, seed=0, N=8, order=4):
        self.presentation = presentation
        self.opts = dict(opts or {})
        self.seed = seed
        self._fd_args = dict(N=N, order=order)
        self.fd = fields.make_fd(N=N, order=order)
        self.inputs = fields.generic_inputs(self.fd, seed, presentation)
        self.helpers = X.helper_calls(self.fd, self.fd.x.shape)
        self._fresh = {}
        recorder.install()

    def new(self, clear_every=20, mem_gb=4, freeze=True, attach=True, loader="freeze"):
        import aurel.core as core
        kw = dict(verbose=False, clear_cache_every_nbr_calc=clear_every, memory_threshold_inGB=mem_gb, lmax=2)
        kw.update(self.opts)
        # every instance gets its own grid object (a request that changed the shared one would contaminate the fresh oracle)
        rel = core.AurelCore(fields.make_fd(**self._fd_args), **kw)
        if loader == "load_data":
            # the documented way of loading one iteration of simulation data: copies into data and freezes
            sim = {k: [np.zeros_like(v), v.copy()] for k, v in self.inputs.items()}
            rel.load_data(sim, 1)
        else:
            for k, v in self.inputs.items():
                rel.data[k] = v.copy()
            if freeze:
                rel.freeze_data()
        rec = recorder.Recorder(rel) if attach else None
        return rel, rec

    def load(self, rel):
        """A load_data() call in the middle of a history: part of the inputs (cachemodel.load_keys) handed over again,
        with the values they already have (so that every later result is still comparable with a fresh instance)."""
        from .cachemodel import load_keys
        sim = {k: [np.zeros_like(self.inputs[k]), self.inputs[k].copy()] for k in load_keys(self.presentation)}
        rel.load_data(sim, 1)

    def do(self, rel, rec, req):
        if req == "!freeze":
            rel.freeze_data()
            return None
        if req == "!load":
            self.load(rel)
            return None
        if req.startswith("item:"):
            f = rel[req[5:]]                 # the item interface hands back the bound method
            if not callable(f):
                raise TypeError(f"rel[{req[5:]!r}] is not the method")
            return None
        if req.startswith("call:"):
            if rec is not None:
                rec.events.append({"ev": "enter", "key": req, "depth": 0})
                rec.stack.append(req)
            try:
                v = self.helpers[req](rel)
            except BaseException as ex:
                if rec is not None:
                    del rec.stack[:]
                    rec.events.append({"ev": "raise", "key": req, "depth": 0, "exc": type(ex).__name__, "in_cleanup": False})
                raise
            if rec is not None:
                del rec.stack[:]
                rec.events.append({"ev": "exit", "key": req, "depth": 0, "count": int(rel.calculation_count),
                                   "evicted": [], "aged_removed": [], "cleanup": False,
                                   "ndata": dict.__len__(rel.data), "naged": len(rel.last_accessed), "stored": False})
            return v
        return rel[req]

    def fresh(self, req, forced=()):
        """Value a fresh instance (inputs only) returns for this one request.

        forced: ((guard key, outcome), ...) - answers given to the few `key in self.data` tests whose two branches agree
        only on exact solutions of Einstein's equations, so that the fresh instance builds the value by the same
        construction as the history did (what the cache holds cannot be arranged by pre-requests alone: a pre-request
        caches other guard keys as a side effect)."""
        key = (req, tuple(forced))
        if key not in self._fresh:
            if not forced:
                rel, rec = self.new(attach=False)
            else:
                rel, rec = self.new(10 ** 9, 10 ** 6, attach=True)
                rec.force_keys = dict(forced)
            try:
                self._fresh[key] = ("ok", self.do(rel, rec, req))
            except RecursionError:
                self._fresh[key] = ("raise", "RecursionError")
            except Exception as ex:
                self._fresh[key] = ("raise", type(ex).__name__)
            finally:
                if rec is not None:
                    rec.detach()
        return self._fresh[key]

    # ------------------------------------------------------------------
    def replay(self, history, clear_every=20, mem_tiny=False, freeze=True, onshell=False, importance=None, readonly=False, loader="freeze",
               coherence=True):
        """Returns dict(events=[...], findings=[(pid, signature, what, replaydata)], info)."""
        findings = []
        setting = {"history": list(history), "clear_every": clear_every, "mem_tiny": mem_tiny, "freeze": freeze,
                   "presentation": self.presentation, "opts": self.opts, "seed": self.seed,
                   "importance": importance or {}}
        mem = 1e-9 if mem_tiny else 4
        rel, rec = self.new(clear_every, mem, freeze, loader=loader)
        setting["loader"] = loader
        for k, v in (importance or {}).items():
            rel.var_importance[k] = v
        input_keys = list(self.inputs)
        in_digest = {k: digest(self.inputs[k]) for k in input_keys}
        held = [("input:" + k, dict.__getitem__(rel.data, k), in_digest[k]) for k in input_keys]
        if readonly:       # second pass of C02: an in-place write raises at its source line
            for k in input_keys:
                for a in arrays_of(dict.__getitem__(rel.data, k)):
                    a.flags.writeable = False
        fd_dg = fd_digest(rel.fd)
        frozen0 = set(input_keys) if freeze else set()
        frozen_digest = {k: in_digest[k] for k in frozen0}
        old = signal.signal(signal.SIGALRM, _alarm)
        nested_evictions = 0
        prov = {}
        mixed_skipped = 0
        try:
            for pos, req in enumerate(history):
                ev0 = len(rec.events)
                if req in ("!freeze", "!load"):
                    if req == "!freeze":
                        rel.freeze_data()
                    else:
                        before = set(dict.keys(rel.data))
                        self.load(rel)
                        # C03: what was frozen is still there, and untouched unless it is part of the loaded dictionary
                        for k in frozen0:
                            if k not in dict.keys(rel.data):
                                findings.append(("C03", {"clause": "FrozenNeverEvicted", "by": "load_data", "key_class": "input" if k in in_digest else "computed"},
                                                 f"frozen entry {k!r} was removed by a load_data() call that does not carry it (history {history[:pos + 1]})",
                                                 dict(setting, pos=pos, evicted=k)))
                            elif digest(dict.__getitem__(rel.data, k)) != frozen_digest[k]:
                                findings.append(("C03", {"clause": "FrozenNeverAltered", "by": "load_data", "key": k},
                                                 f"frozen entry {k!r} was altered by a load_data() call (history {history[:pos + 1]})",
                                                 dict(setting, pos=pos, altered=k)))
                        frozen_digest = {k: d for k, d in frozen_digest.items() if k in dict.keys(rel.data)}
                    for k in dict.keys(rel.data):
                        if k not in frozen_digest:
                            frozen_digest[k] = digest(dict.__getitem__(rel.data, k))
                    frozen0 = set(frozen_digest)
                    continue
                signal.alarm(WALL_GUARD_S)
                keys_before = set(dict.keys(rel.data))
                outcome = None
                try:
                    v = self.do(rel, rec, req)
                    outcome = ("ok", v)
                except Timeout:
                    findings.append(("C03", {"clause": "CleanupTerminates", "key": req},
                                     f"request {req!r} did not finish within {WALL_GUARD_S}s after history {history[:pos]}",
                                     dict(setting, pos=pos)))
                    break
                except RecursionError:
                    outcome = ("raise", "RecursionError")
                except Exception as ex:
                    outcome = ("raise", type(ex).__name__)
                    if readonly and isinstance(ex, ValueError) and "read-only" in str(ex):
                        import traceback
                        tb = [f for f in traceback.extract_tb(ex.__traceback__) if "/aurel/" in f.filename]
                        site = f"{tb[-1].filename.split('/aurel/')[-1]}:{tb[-1].name}" if tb else "?"
                        findings.append(("C02", {"clause": "NoInPlaceWrite", "site": site},
                                         f"request {req!r} writes in place into an array the user holds (inputs or an earlier result), at {site}"
                                         f" line {tb[-1].lineno if tb else '?'}: {tb[-1].line if tb else ''} (history {history[:pos]})",
                                         dict(setting, pos=pos, site=site, readonly=True)))
                finally:
                    signal.alarm(0)
                evs = rec.events[ev0:]
                nested_evictions += sum(len(e.get("evicted", [])) for e in evs if e["ev"] == "exit")
                # ---- C03: exceptions escaping cleanup_cache
                if any(e["ev"] == "raise" and e.get("in_cleanup") for e in evs):
                    findings.append(("C03", {"clause": "CleanupNeverRaises", "exc": outcome[1] if outcome[0] == "raise" else "?"},
                                     f"cleanup_cache raised during request {req!r} after history {history[:pos]}",
                                     dict(setting, pos=pos)))
                # ---- C01: value equals fresh instance
                # Guards whose two branches agree only on exact solutions of Einstein's equations
                # ('st_Riemann_down4' in data: Weyl from Riemann vs from E/B; 'Tdown4' in data: Ricci from T vs from
                # the Riemann contraction).  On generic (off-shell) data the comparison is made within the same
                # branch class: the provenance of every cached value is tracked through the event stream and the
                # fresh instance is asked for the same construction.  Equivalence of the constructions is decided
                # on exact solutions (on-shell family).
                prov_req = provenance(evs, prov, set(self.inputs))
                # ---- C01 (cache coherence): every entry a nested computation of this request left in the cache is what a fresh
                # instance returns for that key - otherwise a later request that hits it returns a history-dependent value
                # (e.g. an entry computed while an option was temporarily changed)
                if not onshell and coherence:
                    new_keys = [k for k in dict.keys(rel.data) if k not in keys_before and k != req]
                    for k in dict.fromkeys([e["key"] for e in evs if e["ev"] == "exit" and e.get("stored") and e["depth"] >= 1] + new_keys):
                        if k in self.inputs or not dict.__contains__(rel.data, k):
                            continue
                        wk, mixed_k = {}, False
                        for g, o in prov.get(k, frozenset()):
                            if g in wk and wk[g] != o:
                                mixed_k = True
                            wk[g] = o
                        if mixed_k:
                            continue
                        refk = self.fresh(k, tuple(sorted(wk.items())))
                        if refk[0] != "ok":
                            continue
                        rk = max_diff(dict.__getitem__(rel.data, k), refk[1])
                        if rk is None or not (rk[0] <= max(REL_TOL * rk[1], ABS_TOL)):
                            findings.append(("C01", {"clause": "CachedEqualsFresh", "key": k},
                                             f"the entry {k!r} left in the cache while rel[{req!r}] was computed (history {history[:pos]}, "
                                             f"clear_cache_every_nbr_calc={clear_every}, mem_tiny={mem_tiny}) differs from what a fresh instance "
                                             f"returns for {k!r}: max abs diff {None if rk is None else rk[0]} on scale {None if rk is None else rk[1]}",
                                             dict(setting, pos=pos, cached=k)))
                pre = ()
                mixed = False
                if not onshell and req not in ("!freeze", "!load"):
                    want = {}
                    for g, o in prov_req:
                        if g in want and want[g] != o:
                            mixed = True
                        want[g] = o
                    pre = tuple(sorted(want.items()))
                if mixed:
                    mixed_skipped += 1
                    held.append((f"returned:{req}", outcome[1], digest(outcome[1]))) if outcome[0] == "ok" else None
                    continue
                ref = self.fresh(req, pre)
                branch = [(e["key"], e["out"]) for e in evs if e["ev"] == "test" and e["depth"] == 1]
                if outcome[0] != ref[0]:
                    if outcome[0] == "raise":
                        reent = first_reentrant(evs)
                        sig = {"clause": "ReturnedEqualsFresh", "kind": "raises", "exc": outcome[1]}
                        if reent:
                            sig["reentrant"] = reent
                        else:
                            sig["key"] = req
                        findings.append(("C01", sig,
                                         f"rel[{req!r}] raises {outcome[1]} after history {history[:pos]} "
                                         f"(clear_cache_every_nbr_calc={clear_every}, mem_tiny={mem_tiny}) but a fresh instance returns a value"
                                         + (f"; evaluation re-enters {reent!r}" if reent else ""),
                                         dict(setting, pos=pos, branch=branch)))
                    else:
                        findings.append(("C01", {"clause": "ReturnedEqualsFresh", "kind": "fresh-raises", "key": req},
                                         f"rel[{req!r}] returns a value after history {history[:pos]} but raises {ref[1]} on a fresh instance",
                                         dict(setting, pos=pos, branch=branch)))
                elif outcome[0] == "ok":
                    r = max_diff(outcome[1], ref[1])
                    if r is None or not (r[0] <= max(REL_TOL * r[1], ABS_TOL)):
                        used_default = sorted(set(default_fallbacks(evs, frozen0, self.inputs)))
                        findings.append(("C01", {"clause": "ReturnedEqualsFresh", "kind": "value", "key": req,
                                                 "branch": branch},
                                         f"rel[{req!r}] after history {history[:pos]} (clear_cache_every_nbr_calc={clear_every}, "
                                         f"mem_tiny={mem_tiny}) differs from a fresh instance: max abs diff "
                                         f"{None if r is None else r[0]:} on scale {None if r is None else r[1]}"
                                         + (f"; inputs recomputed from Minkowski defaults: {used_default}" if used_default else ""),
                                         dict(setting, pos=pos, branch=branch, maxdiff=None if r is None else r[0])))
                # ---- C02: the grid object handed to AurelCore is the user's too
                fdd = fd_digest(rel.fd)
                if fdd != fd_dg:
                    changed = sorted(a for a in fdd if fdd[a] != fd_dg.get(a))
                    findings.append(("C02", {"clause": "NoInPlaceWrite", "written": "FiniteDifference." + changed[0]},
                                     f"request {req!r} changed in place the arrays {changed} of the FiniteDifference object the instance was built on "
                                     f"(history {history[:pos]})", dict(setting, pos=pos, written="fd." + changed[0])))
                    fd_dg = fdd
                # ---- C02: nothing handed out so far changed
                for name, obj, dg in held:
                    if digest(obj) != dg:
                        findings.append(("C02", {"clause": "NoInPlaceWrite", "written": name.split(":", 1)[1],
                                                 "during": req},
                                         f"request {req!r} changed in place the array {name} (history {history[:pos]})",
                                         dict(setting, pos=pos, written=name)))
                held = [(n, o, digest(o)) for n, o, _ in held]
                if outcome[0] == "ok":
                    held.append((f"returned:{req}", outcome[1], digest(outcome[1])))
                    if readonly:
                        for a in arrays_of(outcome[1]):
                            a.flags.writeable = False
                # cached entries written by somebody else than their producer (cache corruption)
                # ---- C03: frozen inputs still there and bookkeeping consistent
                keys_now = set(dict.keys(rel.data))
                for k, w in (importance or {}).items():     # "to never delete a variable, set its importance to 0"
                    if w == 0 and k in keys_now and k not in frozen_digest:
                        frozen_digest[k] = digest(dict.__getitem__(rel.data, k))
                        frozen0 = set(frozen_digest)
                for k in frozen0:
                    if k not in keys_now:
                        findings.append(("C03", {"clause": "FrozenNeverEvicted", "key_class": "input" if k in in_digest else "computed"},
                                         f"frozen entry {k!r} was evicted during request {req!r} (history {history[:pos]}, "
                                         f"clear_cache_every_nbr_calc={clear_every}, mem_tiny={mem_tiny})",
                                         dict(setting, pos=pos, evicted=k)))
                    elif digest(dict.__getitem__(rel.data, k)) != frozen_digest[k]:
                        findings.append(("C03", {"clause": "FrozenNeverAltered", "key": k},
                                         f"frozen entry {k!r} was altered during request {req!r} (history {history[:pos]})",
                                         dict(setting, pos=pos, altered=k)))
                stale = set(rel.last_accessed) - keys_now
                if stale:
                    findings.append(("C03", {"clause": "AgeTableSubsetOfCache"},
                                     f"last_accessed describes entries that are not cached: {sorted(stale)[:5]} after request {req!r} "
                                     f"(history {history[:pos]})", dict(setting, pos=pos, stale=sorted(stale))))
                for k in list(frozen0):
                    if rel.var_importance.get(k, 1.0) != 0:
                        findings.append(("C03", {"clause": "FrozenStaysFrozen"},
                                         f"importance of frozen input {k!r} became {rel.var_importance.get(k)}",
                                         dict(setting, pos=pos)))
        finally:
            signal.signal(signal.SIGALRM, old)
            rec.detach()
        return {"events": rec.events, "findings": findings, "setting": setting,
                "info": {"nested_evictions": nested_evictions, "count": int(rel.calculation_count),
                         "mixed_onshell_provenance_skipped": mixed_skipped}}



ONSHELL_GUARDS = ("st_Riemann_down4", "Tdown4", "st_Ricci_down4")


def provenance(evs, table, inputs):
    """On-shell-only guard outcomes the value of the request depends on (transitively).

    table: provenance of the values currently cached (updated in place).  Returns the provenance of the
    top-level request of this event slice."""
    stack = []      # list of sets
    top = frozenset()
    for e in evs:
        ev = e["ev"]
        if ev == "enter":
            stack.append(set())
        elif ev == "hit":
            p = table.get(e["key"], frozenset())
            if stack:
                stack[-1] |= p
            else:
                top = p
        elif ev == "test":
            if e["key"] in ONSHELL_GUARDS and e["key"] not in inputs and stack:
                stack[-1].add((e["key"], bool(e["out"])))
        elif ev == "exit":
            if stack:
                p = frozenset(stack.pop())
                if not e["key"].startswith("call:"):
                    table[e["key"]] = p
                for k in e.get("evicted", []):
                    table.pop(k, None)
                if stack:
                    stack[-1] |= p
                else:
                    top = p
        elif ev == "raise":
            stack = []
    return top


def first_reentrant(evs):
    stack = []
    for e in evs:
        if e["ev"] == "enter":
            del stack[e["depth"]:]
            if e["key"] in stack:
                return e["key"]
            stack.append(e["key"])
    return None


def default_fallbacks(evs, frozen, inputs):
    """Inputs that were (re)computed by their default function although the user supplied them."""
    return [e["key"] for e in evs if e["ev"] == "enter" and e["key"] in inputs]


# ---------------------------------------------------------------------------
# parallel driver
_ENGINE = {}


def _work(job):
    pres, opts_json, seed, hist, ce, mt, fr, imp = job[:8]
    ro = job[8] if len(job) > 8 else False
    key = (pres, opts_json, seed)
    if key not in _ENGINE:
        _ENGINE[key] = Engine(pres, json.loads(opts_json), seed)
    eng = _ENGINE[key]
    t = time.time()
    out = eng.replay(hist, ce, mt, fr, importance=imp, readonly=ro)
    out["wall"] = time.time() - t
    return out


def replay_many(jobs, procs=None):
    """jobs: list of (presentation, opts dict, seed, history, clear_every, mem_tiny, freeze, importance)."""
    jobs = [(j[0], json.dumps(j[1], sort_keys=True), j[2], list(j[3])) + tuple(j[4:]) for j in jobs]
    procs = procs or min(16, os.cpu_count() or 4)
    if len(jobs) < 4:
        return [_work(j) for j in jobs]
    with mp.get_context("fork").Pool(procs) as pool:
        return pool.map(_work, jobs, chunksize=max(1, len(jobs) // (procs * 8)))
