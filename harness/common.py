"""Bookkeeping shared by all checks: evidence, violations, known findings."""
import hashlib
import json
import os
import sys
import time

ROOT = os.path.dirname(os.path.dirname(os.path.abspath(__file__)))
# both can be redirected so that trying a seeded change in a scratch tree does not overwrite the real evidence
EVID_DIR = os.environ.get("VERIF_EVIDENCE_DIR") or os.path.join(ROOT, "evidence")
REPLAY_DIR = os.environ.get("VERIF_REPLAY_DIR") or os.path.join(ROOT, "replays")
FINDINGS = os.path.join(ROOT, "known_findings.json")
REPO = os.environ.get("VERIF_REPO", "/repo")


def load_findings():
    if not os.path.exists(FINDINGS):
        return []
    with open(FINDINGS) as fh:
        return json.load(fh).get("findings", [])


def _jsonable(x):
    try:
        import numpy as np
    except Exception:  # pragma: no cover
        np = None
    if isinstance(x, dict):
        return {str(k): _jsonable(v) for k, v in x.items()}
    if isinstance(x, (list, tuple)):
        return [_jsonable(v) for v in x]
    if isinstance(x, (set, frozenset)):
        return sorted((_jsonable(v) for v in x), key=lambda v: json.dumps(v, sort_keys=True))
    if np is not None:
        if isinstance(x, np.ndarray):
            return _jsonable(x.tolist())
        if isinstance(x, np.generic):
            return _jsonable(x.item())
    if isinstance(x, complex):
        return [x.real, x.imag]
    if isinstance(x, float):
        if x != x or x in (float("inf"), float("-inf")):
            return repr(x)
        return x
    if isinstance(x, (str, int, bool)) or x is None:
        return x
    from fractions import Fraction
    if isinstance(x, Fraction):
        return f"{x.numerator}/{x.denominator}"
    return repr(x)


class Run:
    """One execution of one property's check."""

    def __init__(self, pid, tier, seed, level="model_checking"):
        self.pid = pid
        self.tier = tier
        self.seed = seed
        self.level = level
        self.t0 = time.time()
        self.states = 0
        self.transitions = 0
        self.traces = 0
        self.evaluations = 0
        self.samples = []
        self.nontrivial = set()
        self.rule = ""
        self.exhaustive = False
        self.assumptions = []
        self.violations = []        # unlisted
        self.known_seen = {}        # index in findings -> count
        self.drift = []
        self.info = {}
        self.tlc_runs = []
        self.coverage_actions = {}
        self._findings = [f for f in load_findings() if f.get("property") == pid]
        self._vio_sigs = set()
        self.max_samples = 12

    # -- accumulation ------------------------------------------------------
    def add_tlc(self, res, label=""):
        self.states += res.distinct
        self.transitions += res.generated
        self.tlc_runs.append({"label": label, "generated": res.generated, "distinct": res.distinct,
                              "depth": res.depth, "wall_s": round(res.wall, 2)})
        for a, (d, t) in res.coverage.items():
            o = self.coverage_actions.get(a, (0, 0))
            self.coverage_actions[a] = (o[0] + d, o[1] + t)

    def sample(self, x):
        if len(self.samples) < self.max_samples:
            self.samples.append(_jsonable(x))

    def count(self, key=None, n=1):
        """One evaluation; `key` (hashable/jsonable) marks it as a distinct non-trivial case."""
        self.evaluations += n
        if key is not None:
            self.nontrivial.add(json.dumps(_jsonable(key), sort_keys=True))

    def note_drift(self, msg):
        if len(self.drift) < 50:
            self.drift.append(msg)
        print(f"MODEL-DRIFT: property={self.pid} {msg}", flush=True)

    # -- verdicts ----------------------------------------------------------
    def _match_known(self, sig):
        for i, f in enumerate(self._findings):
            if f.get("status") != "known":
                continue
            fs = f.get("signature", {})
            if all(_jsonable(sig.get(k)) == v for k, v in fs.items()):
                return i
        return None

    def violation(self, signature, what, replay=None):
        """A failed *property clause* observed on the real code.

        signature: dict identifying the failing site (used for known-finding
        matching and for de-duplication).  replay: jsonable data sufficient to
        reproduce (inputs, history, expected/observed)."""
        sig = _jsonable(signature)
        key = json.dumps(sig, sort_keys=True)
        i = self._match_known(sig)
        if i is not None:
            self.known_seen[i] = self.known_seen.get(i, 0) + 1
            return False
        if key in self._vio_sigs:
            return True
        self._vio_sigs.add(key)
        os.makedirs(REPLAY_DIR, exist_ok=True)
        h = hashlib.sha1(key.encode()).hexdigest()[:10]
        path = os.path.join(REPLAY_DIR, f"{self.pid}_{h}.json")
        with open(path, "w") as fh:
            json.dump({"property": self.pid, "signature": sig, "what": what,
                       "tier": self.tier, "seed": self.seed, "replay": _jsonable(replay)},
                      fh, indent=1, sort_keys=True)
        self.violations.append({"signature": sig, "what": what, "replay": path})
        print(f"VIOLATION property={self.pid} replay={path}", flush=True)
        print(f"  what: {what}", flush=True)
        return True

    # -- output --------------------------------------------------------------
    def finish(self):
        for i, n in sorted(self.known_seen.items()):
            f = self._findings[i]
            print(f"KNOWN-FINDING: property={self.pid} {f.get('what', '')} "
                  f"[signature={json.dumps(f.get('signature', {}), sort_keys=True)}; seen {n}x]", flush=True)
        cov = {
            "states": int(self.states),
            "transitions": int(self.transitions),
            "traces_validated_against_impl": int(self.traces),
            "samples": self.samples if self.samples else ["(none)"],
            "evaluations": int(self.evaluations),
            "distinct_nontrivial": len(self.nontrivial),
            "rule": self.rule,
            "exhaustive": bool(self.exhaustive),
            "tlc_runs": self.tlc_runs,
            "tlc_action_coverage": {a: {"distinct": d, "total": t} for a, (d, t) in sorted(self.coverage_actions.items())},
            "model_drift": self.drift,
            "known_findings_observed": [self._findings[i].get("signature") for i in sorted(self.known_seen)],
            "unlisted_violations": self.violations[:20],
        }
        cov.update(_jsonable(self.info))
        ev = {
            "property_id": self.pid,
            "tier": self.tier,
            "seed": int(self.seed),
            "level": self.level,
            "coverage": cov,
            "assumptions": self.assumptions,
            "wall_s": round(time.time() - self.t0, 2),
            "violations": len(self.violations),
        }
        os.makedirs(EVID_DIR, exist_ok=True)
        with open(os.path.join(EVID_DIR, f"{self.pid}.json"), "w") as fh:
            json.dump(ev, fh, indent=1, sort_keys=True)
        try:
            import jsonschema
            with open("/root/.vp/EVIDENCE.schema.json") as fh:
                jsonschema.validate(ev, json.load(fh))
        except FileNotFoundError:
            pass
        except ImportError:
            pass
        print(f"[{self.pid} {self.tier}] states={self.states} transitions={self.transitions} "
              f"traces={self.traces} evaluations={self.evaluations} "
              f"nontrivial={len(self.nontrivial)} violations={len(self.violations)} "
              f"known={len(self.known_seen)} drift={len(self.drift)} wall={ev['wall_s']}s", flush=True)
        return 1 if self.violations else 0
