"""Running the exact-arithmetic geometry specs (spec/geometry) modulo several primes and lifting to Q."""
import json
import multiprocessing as mp
import os
from fractions import Fraction

from . import jets as J
from .tlc import run_tlc, wrapper

NPRIMES = 8


def _run_prime(args):
    module, defs_for_p, p, invariants, spec_dirs, extra = args
    defs = defs_for_p(p) if callable(defs_for_p) else defs_for_p[p]
    name, text, cl = wrapper(module, defs)
    cfg = "SPECIFICATION Spec\nCONSTANTS\n" + cl + f"\n  P = {p}\n" + "".join(f"INVARIANT {i}\n" for i in invariants) + extra
    r = run_tlc(name, cfg, spec_dirs, extra_files={name + ".tla": text}, workers=2, timeout=3000, jvm_opts=["-Xmx2g"])
    return {"p": p, "printed": r.printed, "violated": r.violated, "generated": r.generated, "distinct": r.distinct,
            "wall": r.wall, "depth": r.depth, "tail": r.stdout[-1500:] if r.violated else ""}


class FakeRes:
    def __init__(self, d):
        self.generated, self.distinct, self.depth, self.wall, self.coverage = d["generated"], d["distinct"], d["depth"], d["wall"], {}


def run_mod_primes(module, defs_by_prime, invariants, spec_dirs=("geometry", "exact"), primes=None, extra_cfg=""):
    """defs_by_prime: {p: {ConstName: tla_text}}.  Returns list of per-prime results (dicts)."""
    primes = primes or J.PRIMES[:NPRIMES]
    jobs = [(module, defs_by_prime, p, invariants, list(spec_dirs), extra_cfg) for p in primes]
    with mp.get_context("fork").Pool(min(len(jobs), 8)) as pool:
        return pool.map(_run_prime, jobs)


def lift_records(results, key_fields, id_field="case"):
    """Combine the per-prime records of every case.  Returns {case_id: {field: [Fraction or None, ...]}} and
    the list of (case, prime) pairs skipped as unlucky."""
    by_case = {}
    for res in results:
        for rec in res["printed"]:
            if not isinstance(rec, dict) or id_field not in rec:
                continue
            by_case.setdefault(rec[id_field], []).append(rec)
    out, unlucky = {}, []
    for cid, recs in by_case.items():
        good = [r for r in recs if r.get("lucky", True)]
        unlucky += [(cid, r["P"]) for r in recs if not r.get("lucky", True)]
        if len(good) < 5:
            out[cid] = None
            continue
        primes = [r["P"] for r in good]
        vals = {}
        for f in key_fields:
            if f not in good[0]:
                continue
            cols = []
            for r in good:
                v = r[f]
                cols.append(v if isinstance(v, list) else [v])
            vals[f] = J.lift(cols, primes)
        out[cid] = vals
    return out, unlucky
