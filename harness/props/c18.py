"""C18: simulation catalogues and name parsing are faithful and stable across calls."""
import itertools
import json

from .. import et_engine as E
from ..common import Run


def check_names(run):
    """parse(Name(x)) = x for the dataset-key and file-name schemes (component alphabets enumerated here;
    the naming scheme itself is the one of gen_et / CarpetIOHDF5)."""
    import aurel.reading as R
    n = 0
    thorns = ["ADMBASE", "ML_BSSN", "my-thorn2", "GRHydro"]
    vars_ = ["gxx", "alp", "vel[0]", "Psi4r", "H", "it_rl", "restart"]
    for thorn, v, it, tl, m0, rl, c in itertools.product(thorns, vars_, [0, 7, 1024], [0, 1], [False, True], [None, 0, 3], [None, 0, 12]):
        key = f"{thorn}::{v} it={it} tl={tl}" + (" m=0" if m0 else "") + (f" rl={rl}" if rl is not None else "") + (f" c={c}" if c is not None else "")
        got = R.parse_hdf5_key(key)
        want = {"thorn": thorn, "variable": v, "it": it, "tl": tl, "m": 0 if m0 else None, "rl": rl, "c": c,
                "combined variable name": f"{thorn}::{v}"}
        n += 1
        if got != want:
            run.violation({"clause": "KeyParsingInverts", "field": next((k for k in want if not got or got.get(k) != want[k]), "?")},
                          f"parse_hdf5_key({key!r}) = {got}, the key was built from {want}", {"key": key})
    groups = [None, "admbase", "ml_bssn", "hydro_base2"]
    names = ["metric", "rho", "vel[0]", "w_lorentz", "restart_rl"]
    for g, v, xyz1, c, xyz2, prefix in itertools.product(groups, names, [False, True], [None, 0, 17], [False, True], ["", "/data/my_restart_run/output-0001/sim.file_3/"]):
        if xyz1 and xyz2:
            continue
        fn = (f"{g}-" if g else "") + v + (".xyz" if xyz1 else "") + (f".file_{c}" if c is not None else "") + (".xyz" if xyz2 else "") + ".h5"
        got = R.parse_h5file(prefix + fn)
        n += 1
        ok = (got is not None and got.get("thorn") == g and got.get("variable_or_group") == v and got.get("chunk_number") == c
              and got.get("group_file") == (g is not None))
        if not ok:
            run.violation({"clause": "FileParsingInverts", "group": g is not None, "path": bool(prefix)},
                          f"parse_h5file({prefix + fn!r}) = {got}; the name was built from thorn={g}, name={v}, chunk={c}", {"file": prefix + fn})
    for it, c, prefix in itertools.product([0, 354, 100000], [None, 0, 31], ["", "/x/restart/"]):
        fn = f"checkpoint.chkpt.it_{it}" + (f".file_{c}" if c is not None else "") + ".h5"
        got = R.parse_h5file(prefix + fn)
        n += 1
        if got != {"iteration": it, "chunk_number": c}:
            run.violation({"clause": "CheckpointParsingInverts"}, f"parse_h5file({prefix + fn!r}) = {got}", {"file": prefix + fn})
    return n


def run(tier, seed):
    run = Run("C18", tier, seed)
    r1 = E.run_catalogue(3, 4, names=["bbh"], layouts=[("onefile", "ungrouped"), ("proc", "grouped")])
    run.add_tlc(r1, "Catalogue: <=3 restarts, <=4 steps, plain name, exhaustive")
    r2 = E.run_catalogue(2, 3, names=["my_restart_run", "arange_rl"], layouts=[("onefile", "grouped"), ("proc", "ungrouped")])
    run.add_tlc(r2, "Catalogue: names containing words of the catalogue format, <=2 restarts, <=3 steps, exhaustive")
    r2b = E.run_catalogue(2, 2, names=["bbh"], layouts=[("onefile", "grouped"), ("proc", "ungrouped")], nlevels=(12, 3))
    run.add_tlc(r2b, "Catalogue: 12 refinement levels (two-digit level numbers) and levels 0 and 2 only (a gap), <=2 restarts, <=2 steps, exhaustive")
    states = []
    for r in (r1, r2, r2b):
        if r.violated:
            raise RuntimeError("Catalogue spec violates " + r.violated)
        states += [p for p in r.printed if "hist" in p]
    if tier == "thorough":
        r3 = E.run_catalogue(4, 7, simulate=150, seed=seed + 1)
        run.add_tlc(r3, "Catalogue: <=4 restarts, 7 steps, simulated")
        states += [p for p in r3.printed if "hist" in p]
    # keep behaviours that are not a prefix of another one with the same environment
    keyed = {}
    for s in states:
        keyed[json.dumps([s["hist"], s["name"], s["layout"], s["nlev"], s["restarts"]], sort_keys=True)] = s
    states = list(keyed.values())
    cap = 2500 if tier == "quick" else 20000
    run.info["behaviours_enumerated"] = len(states)
    deep = [s for s in states if s["nlev"] > 2]
    states = [s for s in states if s["nlev"] <= 2]
    if len(states) > cap:
        states = states[:: len(states) // cap + 1]      # replay a 1-in-k subsample of the enumerated behaviours
    states += deep[:: (3 if tier == "quick" else 1)]
    jobs = [(s, i) for i, s in enumerate(states)]
    res = E.pmap(E.check_catalogue, jobs)
    for (s, _), fnds in zip(jobs, res):
        calls = [h for h in s["hist"] if h["op"] != "run"]
        run.count((json.dumps(s["hist"]), s["name"], tuple(s["layout"]), s["nlev"]) if (len(_seqlen(s["restarts"])) >= 2 or len(calls) >= 2) else None)
        if not fnds:
            run.traces += 1
        for sig, what, rep in fnds:
            run.violation(sig, what, rep)
    run.info["name_round_trips"] = check_names(run)
    if states:
        s = states[len(states) // 2]
        run.sample({"name": s["name"], "layout": s["layout"], "levels": s["nlev"], "steps": s["hist"], "scan": s["scan"]})
    run.rule = ("every behaviour of Catalogue.tla (directories growing by restarts of three shapes incl. single-iteration restarts and level-dependent "
                "strides, 1, 2 or 12 refinement levels or levels 0 and 2 only, levels split into different numbers of components, variable names with brackets; calls iterations(skip_last)/read_iterations()/get_content(restart, overwrite) interleaved with new restarts; simulation names "
                "containing 'restart', 'arange', 'rl') is replayed on generated directories: returned structures = Scan of what is on disk, files parse "
                "back to them, repeated calls are identities, overall = union of the restarts, and the incremental catalogue equals a fresh scan of "
                "a copy; name/key parsing inverted over enumerated component alphabets. Non-trivial = >= 2 restarts or >= 2 calls")
    run.assumptions = ["a restart directory does not change after it was written", "each restart writes each level with a constant stride"]
    return run.finish()


def _seqlen(x):
    return list(x.values()) if isinstance(x, dict) else list(x)


def replay(path):
    with open(path) as fh:
        r = json.load(fh)["replay"]
    if "state" not in r:
        return 1
    f = E.check_catalogue((r["state"], 0))
    for x in f:
        print(x[0], x[1])
    return 1 if f else 0
