"""Build and run the AurelCache model on a graph extracted from the working tree."""
import json
from . import extract as X
from .tlc import run_tlc, wrapper

INPUT_SETS = {
    # how the user hands the spacetime to AurelCore ("input presentation")
    "tensors": ["gammadown3", "Kdown3", "alpha", "betaup3", "dtalpha", "dtbetaup3", "Tdown4"],
    "components": ["gxx", "gxy", "gxz", "gyy", "gyz", "gzz", "kxx", "kxy", "kxz", "kyy", "kyz", "kzz",
                   "alpha", "betax", "betay", "betaz", "dtalpha", "dtbetax", "dtbetay", "dtbetaz",
                   "rho0", "eps", "press", "w_lorentz", "velx", "vely", "velz"],
    "minimal": ["gammadown3", "Kdown3", "alpha", "rho"],
    # no matter variable at all (every matter quantity falls back to its default, zero)
    "nomatter": ["gammadown3", "Kdown3", "alpha", "betaup3"],
    # matter given as rest-mass density (vanishing in a region) and pressure, no internal energy
    "dust": ["gammadown3", "Kdown3", "alpha", "rho0", "press"],
    # shift handed over by its non-zero components only (beta^x = 0 is left to the default)
    "partial": ["gammadown3", "Kdown3", "alpha", "betay", "betaz", "Tdown4"],
}

INVARIANTS = ["AgeTableSubsetOfCache", "FrozenNeverEvicted", "FrozenNeverAltered", "PolicyRefinement",
              "CacheNeverWritten", "NoReentrancy", "NoUnexplored", "StackBounded"]
PROPERTIES = ["OnlyWholeUnfrozenEntries", "CountMonotone", "NoInPlaceWrite", "LoadKeepsFrozen"]


FUNCTION_TOKENS = ["item:s_covd", "item:Lie_beta", "item:trace3", "item:s_to_st"]


def load_keys(pres):
    """The dictionary a mid-history load_data() call hands over: the inputs except every third one
    (so that some frozen inputs are NOT part of the loaded dictionary and must survive the call)."""
    ks = sorted(INPUT_SETS[pres])
    return [k for i, k in enumerate(ks) if i % 3 != 0]


def q(s):
    return '"' + s + '"'


def tset(xs):
    return "{" + ", ".join(q(x) for x in xs) + "}"


def cfg_text(consts, invariants=INVARIANTS, properties=PROPERTIES, spec="Spec", constraint=None,
             action_constraint="EmitCoverage", extra=""):
    lines = [f"SPECIFICATION {spec}", "CONSTANTS", consts]
    for i in invariants:
        lines.append(f"INVARIANT {i}")
    for p in properties:
        lines.append(f"PROPERTY {p}")
    if constraint:
        lines.append(f"CONSTRAINT {constraint}")
    if action_constraint:
        lines.append(f"ACTION_CONSTRAINT {action_constraint}")
    lines.append(extra)
    return "\n".join(lines) + "\n"


def run_model(graph, inputs, requests, max_requests, clear_every, mem_tiny=False, policy="code",
              freeze=True, invariants=INVARIANTS, properties=PROPERTIES, emit=True, max_stack=40,
              simulate=None, depth=None, seed=None, workers=None, timeout=3000, spec="Spec",
              coverage=False, graph_module=None, extra_defs=None, extra_cfg="", constraint=None, allow_freeze=False, load=None, functions=None):
    gtext = graph_module or X.to_tla(graph, "CoreGraph")
    defs = {
        "Keys": "GKeys", "Helpers": "GHelpers", "Prog": "GProg", "Start": "GStart",
        "Size": "GSize", "Imp": "GImp", "MutKeys": "GMut",
        "Inputs": tset(inputs), "Requests": tset(requests), "LoadKeys": tset(load or []), "Functions": tset(functions or []),
    }
    defs.update(extra_defs or {})
    name, text, cl = wrapper("AurelCache", defs, extends_extra=", CoreGraph")
    consts = cl + f"""
  FreezeFirst = {"TRUE" if freeze else "FALSE"}
  MaxRequests = {max_requests}
  ClearEvery = {clear_every}
  MemTiny = {"TRUE" if mem_tiny else "FALSE"}
  Policy = "{policy}"
  MaxStack = {max_stack}
  EmitCov = {"TRUE" if emit else "FALSE"}
  AllowFreeze = {"TRUE" if allow_freeze else "FALSE"}"""
    cfg = cfg_text(consts, invariants, properties, spec=spec, constraint=constraint, extra=extra_cfg)
    # ASSUME CovInit initialises the register on every worker
    text = text.replace("====", "ASSUME CovInit\n====")
    res = run_tlc(name, cfg, ["cache"], extra_files={name + ".tla": text, "CoreGraph.tla": gtext},
                  simulate=simulate, depth=depth, seed=seed, workers=workers, timeout=timeout, coverage=coverage)
    return res


if __name__ == "__main__":
    import sys, time
    g = X.extract({"vacuum": False})
    inputs = INPUT_SETS[sys.argv[1] if len(sys.argv) > 1 else "tensors"]
    reqs = g["keys"] + g["helpers"]
    res = run_model(g, inputs, reqs, int(sys.argv[2]) if len(sys.argv) > 2 else 1,
                    int(sys.argv[3]) if len(sys.argv) > 3 else 2)
    print(res)
    print("violated", res.violated)
    for st in res.error_trace[-1:]:
        print({k: v[:300] for k, v in st.items() if k in ("hist", "stack", "status", "data")})
    print(len(res.printed), "coverage records")
    print(res.stdout[-1500:] if res.violated is None and not res.printed else "")


TRACE_INVARIANTS = ["AgeTableSubsetOfCache", "FrozenNeverEvicted", "FrozenNeverAltered", "CacheNeverWritten"]
TRACE_PROPERTIES = ["OnlyWholeUnfrozenEntries", "CountMonotone", "NoInPlaceWrite", "LoadKeepsFrozen"]


FUNCTION_TOKENS = ["item:s_covd", "item:Lie_beta", "item:trace3", "item:s_to_st"]


def load_keys(pres):
    """The dictionary a mid-history load_data() call hands over: the inputs except every third one
    (so that some frozen inputs are NOT part of the loaded dictionary and must survive the call)."""
    ks = sorted(INPUT_SETS[pres])
    return [k for i, k in enumerate(ks) if i % 3 != 0]


class _Merged:
    """Statistics of several TLC runs presented as one (for the evidence file)."""

    def __init__(self, rs):
        self.generated = sum(r.generated for r in rs)
        self.distinct = sum(r.distinct for r in rs)
        self.depth = max(r.depth for r in rs)
        self.wall = sum(r.wall for r in rs)
        self.coverage = {}
        self.violated = next((r.violated for r in rs if r.violated), None)
        self.stdout = rs[-1].stdout
        self.printed = [p for r in rs for p in r.printed]
        self.error_trace = next((r.error_trace for r in rs if r.violated), [])


MAX_EVENTS_PER_BATCH = 100000     # the deserialised trace log lives in the JVM heap: 4000 long traces needed > 12 GB in one run


def validate_traces(graph, inputs, freeze, traces, timeout=3000, graph_text=None):
    """TLC-validate recorded event streams against TraceCache, in batches of bounded size (run two at a time).

    Returns dict(accepted=n, rejected={tid: position}, violated=(name, tid, pos) or None, res=statistics)."""
    batches, cur, n = [], [], 0
    for i, tr in enumerate(traces):
        if cur and n + len(tr) > MAX_EVENTS_PER_BATCH:
            batches.append(cur)
            cur, n = [], 0
        cur.append(i)
        n += len(tr)
    if cur:
        batches.append(cur)
    if len(batches) <= 1:
        return _validate_batch(graph, inputs, freeze, traces, timeout, graph_text)
    from multiprocessing.pool import ThreadPool
    gtext = graph_text or X.to_tla(graph, "CoreGraph")
    with ThreadPool(2) as pool:
        outs = pool.map(lambda b: _validate_batch(graph, inputs, freeze, [traces[i] for i in b], timeout, gtext), batches)
    merged = {"res": _Merged([o["res"] for o in outs]), "rejected": {}, "violated": None, "accepted": 0}
    for b, o in zip(batches, outs):
        merged["accepted"] += o["accepted"]
        for tid, pos in o["rejected"].items():
            merged["rejected"][b[tid - 1] + 1] = pos
        if o["violated"] and merged["violated"] is None:
            name, tid, pos = o["violated"]
            merged["violated"] = (name, b[tid - 1] + 1 if 0 < tid <= len(b) else 0, pos)
    return merged


def _validate_batch(graph, inputs, freeze, traces, timeout=3000, graph_text=None):
    """One TLC run over a list of event streams."""
    import json as _json, os, tempfile
    from .tlc import run_tlc, wrapper
    gtext = graph_text or X.to_tla(graph, "CoreGraph")
    allreq = graph["keys"] + graph["helpers"]
    defs = {"Keys": "GKeys", "Helpers": "GHelpers", "Prog": "GProg", "Start": "GStart", "Size": "GSize",
            "Imp": "GImp", "MutKeys": "GMut", "Inputs": tset(inputs), "Requests": tset(allreq), "LoadKeys": "{}", "Functions": tset(FUNCTION_TOKENS)}
    name, text, cl = wrapper("TraceCache", defs, extends_extra=", CoreGraph")
    text = text.replace("====", "ASSUME RegInit\n====")
    consts = cl + f"""
  FreezeFirst = {"TRUE" if freeze else "FALSE"}
  MaxRequests = 100000
  ClearEvery = 1
  MemTiny = TRUE
  Policy = "any"
  MaxStack = 100000
  EmitCov = FALSE
  AllowFreeze = TRUE"""
    lines = ["SPECIFICATION TrSpec", "CONSTANTS", consts]
    lines += [f"INVARIANT {i}" for i in TRACE_INVARIANTS]
    lines += [f"PROPERTY {p}" for p in TRACE_PROPERTIES]
    lines += ["CONSTRAINT Progress", "POSTCONDITION Accepted"]
    cfg = "\n".join(lines) + "\n"
    keep = ("ev", "key", "depth", "out", "count", "evicted", "aged_removed", "ndata", "naged", "exc", "frozen")
    # the model names a method fetched through the item interface "item:<name>"
    slim = [[{k: e[k] for k in keep if k in e} for e in tr] for tr in traces]
    fd, path = tempfile.mkstemp(prefix="vtrace_", suffix=".json")
    with os.fdopen(fd, "w") as fh:
        _json.dump(slim, fh)
    try:
        res = run_tlc(name, cfg, ["cache"], extra_files={name + ".tla": text, "CoreGraph.tla": gtext},
                      workers=1, env={"TRACE_FILE": path}, timeout=timeout, dfs_queue=False, jvm_opts=["-Xmx8g"])
    finally:
        os.unlink(path)
    out = {"res": res, "rejected": {}, "violated": None, "accepted": 0}
    verdict = [p for p in res.printed if isinstance(p, dict) and p.get("verdict") == "trace-validation"]
    if res.violated:
        last = res.error_trace[-1] if res.error_trace else {}
        out["violated"] = (res.violated, int(last.get("tid", "0") or 0), int(last.get("l", "0") or 0))
        return out
    if not verdict:
        raise RuntimeError("trace validation produced no verdict:\n" + res.stdout[-2000:])
    rej = verdict[0]["rejected"]
    if isinstance(rej, dict):
        out["rejected"] = {int(k): int(v) for k, v in rej.items()}
    elif isinstance(rej, list):
        # ToJson renders a function with domain 1..n as an array
        out["rejected"] = {i + 1: int(v) for i, v in enumerate(rej)}
    out["accepted"] = len(traces) - len(out["rejected"])
    return out
