"""C19: kinematics of the default (Eulerian) observers reduce to the 3+1 identities."""
from . import geo_common as GC

KEYS = [("uup4", "nup4", 1.0), ("theta", "theta", 1.0), ("sheardown4", "minusA", 1.0, "ss"), ("shear2", "shear2", 1.0),
        ("omegadown4", "zero16", 1.0), ("omega2", "zero", 1.0), ("accelerationdown4", "dalpha_over_alpha", 1.0, "s"),
        ("st_covd_udown4", "covd_n", 1.0)]


def extra(run, cases, oracle, tier):
    """a_mu n^mu = 0 and sigma_mu_nu n^nu = 0, evaluated on the code's own outputs."""
    import numpy as np
    from .. import geo_replay as GR
    for ci, c in enumerate(cases, start=1):
        if oracle.get(ci) is None or ci > (4 if tier == "quick" else len(cases)):
            continue
        rel, idx, F = GR.build_instance(c, oracle[ci], 4, opts={"vacuum": True, "_noT": True} if c.get("vacuum") else None)
        n = rel["nup4"][(...,) + idx]
        a = rel["accelerationdown4"][(...,) + idx]
        sh = rel["sheardown4"][(...,) + idx]
        au = rel["accelerationup4"][(...,) + idx]
        gup = rel["gup4"][(...,) + idx]
        scale = max(1.0, np.abs(a).max())
        an = float(np.dot(a, n))
        run.count((c["cls"], c["seed"], "a.n"))
        if abs(an) > 2e-5 * scale:
            cls = {x["name"]: x for x in GC.ST.CLASSES}[c["cls"]]
            run.violation({"clause": "AccelerationOrthogonalToNormal", "needs": "dtalpha" if cls["lapse"] == "time-dependent" else "any"},
                          f"acceleration has a component along the normal on the {c['cls']} spacetime (seed {c['seed']}): a_mu n^mu = {an!r} "
                          f"(a_mu = {a.tolist()})", {"class": c["cls"], "seed": c["seed"]})
        if np.abs(sh @ n).max() > 2e-5 * max(1.0, np.abs(sh).max()):
            run.violation({"clause": "ShearOrthogonalToNormal"}, f"sigma_mu_nu n^nu = {(sh @ n).tolist()} on the {c['cls']} spacetime",
                          {"class": c["cls"], "seed": c["seed"]})
        if np.abs(au - gup @ a).max() > 1e-9 * scale:
            run.violation({"clause": "RaisedEqualsLowered", "key": "accelerationup4"}, f"accelerationup4 != g^mu_nu a_nu on the {c['cls']} spacetime",
                          {"class": c["cls"], "seed": c["seed"]})
        run.traces += 1


def run(tier, seed):
    return GC.run_geo("C19", tier, seed, KEYS,
                      "default fluid state (u = n) on spacetimes given by exact jets (time-dependent non-unit lapse, non-zero shift, non-diagonal "
                      "metric, K != 0): TLC computes -K, -A_ij, 1/2 A_ij A^ij, d_i ln(alpha), n^mu and nabla_mu n_nu from the definitions; the real "
                      "uup4, theta, sheardown4, shear2, omegadown4, omega2, accelerationdown4, st_covd_udown4 are compared at the probe point; "
                      "a_mu n^mu = 0 and sigma_mu_nu n^nu = 0 are evaluated on the code's outputs", extra_checks=extra)


def replay(path):
    print("re-run ./check C19 quick")
    return 1
