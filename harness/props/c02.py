"""C02: requests never modify user inputs or values already handed out."""
import json

from .. import cachemodel as M
from .. import extract as X
from ..common import Run
from . import cache_common as CC


def specs_for(tier, seed):
    s = [
        dict(pres="tensors", nreq=2, ce=1000, label="real graph, tensors, 2 requests exhaustive, nothing evicted (ce=1000)"),
        dict(pres="components", nreq=1, ce=3, label="real graph, components, 1 request exhaustive, ce=3"),
        dict(pres="minimal", nreq=1, ce=1000, label="real graph, minimal, 1 request"),
        dict(pres="tensors", nreq=8, ce=1000, simulate=8, seed=seed + 1, emit=False, label="simulate 8 requests, nothing evicted"),
        dict(pres="components", nreq=8, ce=4, simulate=6, seed=seed + 2, emit=False, label="simulate 8 requests ce=4"),
    ]
    if tier == "thorough":
        s += [
            dict(pres="components", nreq=2, ce=1000, label="real graph, components, 2 requests exhaustive, nothing evicted"),
            dict(pres="components", nreq=2, ce=3, label="real graph, components, 2 requests exhaustive, ce=3"),
            dict(pres="minimal", nreq=2, ce=2, label="real graph, minimal, 2 requests exhaustive, ce=2"),
            dict(pres="tensors", nreq=25, ce=1000, simulate=40, seed=seed + 3, emit=False, label="simulate 25 requests nothing evicted"),
            dict(pres="components", nreq=25, ce=6, simulate=40, seed=seed + 4, emit=False, label="simulate 25 requests ce=6"),
        ]
    return s


def run(tier, seed):
    run = Run("C02", tier, seed)
    opts = {}
    graph = X.extract(opts)
    writers = {k: sorted({m for n in ns if n["op"] == "end" for m in n["mutates"]}) for k, ns in graph["prog"].items()}
    run.info["in_place_writers_found_by_extraction"] = {k: v for k, v in writers.items() if v}
    run.info["aliasing_leaves"] = sum(1 for ns in graph["prog"].values() for n in ns if n["op"] == "end" and n["alias"])
    plan = CC.Plan()
    # C02's clause is NoInPlaceWrite (objects the user holds); CacheNeverWritten (objects only the cache holds) is C01's
    inv = [i for i in M.INVARIANTS if i != "CacheNeverWritten"]
    specs = CC.run_models(run, graph, [dict(sp, invariants=inv) for sp in specs_for(tier, seed)], plan, opts)
    run.info["tlc_models"] = [{k: v for k, v in sp.items() if k != "requests"} for sp in specs]
    CC.execute(run, "C02", graph, plan, opts, seed, max_traces=250 if tier == "quick" else 3000, readonly_pass=True)
    if tier == "thorough":
        g2 = X.extract({"vacuum": True})
        plan2 = CC.Plan()
        CC.run_models(run, g2, [dict(pres="minimal", nreq=2, ce=1000, label="vacuum=True graph, 2 requests exhaustive")], plan2, {"vacuum": True})
        CC.execute(run, "C02", g2, plan2, {"vacuum": True}, seed, max_traces=1000, readonly_pass=True)
    from . import c02_args
    c02_args.check_arguments(run, tier, seed)
    CC.binding_demo(run, graph, seed)
    run.rule = ("histories from exhaustive / simulated AurelCache behaviours (which make names share array objects: views, aliases) replayed on the real "
                "AurelCore twice: (1) byte digests of every input and of every value returned so far, re-taken after every request; (2) the same "
                "arrays marked read-only so that an in-place write raises at its source line. The model's heap part (obj/dirty/handed) is checked "
                "by TLC (NoInPlaceWrite, CacheNeverWritten) and on every trace. Argument objects of over_time / save_data / read_data are "
                "deep-compared before/after. Non-trivial = >= 2 requests with an eviction or a guard hit")
    run.assumptions = ["a write is observed as a byte change of the array (or as a ValueError on a read-only array)"]
    return run.finish()


def replay(path):
    from ..cache_engine import Engine
    with open(path) as fh:
        r = json.load(fh)["replay"]
    if "history" not in r:
        from . import c02_args
        return c02_args.replay(r)
    eng = Engine(r["presentation"], r["opts"], r["seed"])
    out = eng.replay(r["history"], r["clear_every"], r["mem_tiny"], r["freeze"], importance=r.get("importance"), readonly=r.get("readonly", False))
    bad = [f for f in out["findings"] if f[0] == "C02"]
    for f in bad:
        print(f[1], f[2])
    return 1 if bad else 0
