#!/bin/sh
# Offline set-up: nothing to build; verify the tools the checks need are present.
set -e
cd "$(dirname "$0")"
java -version >/dev/null 2>&1
test -f /opt/veriftools/tla/tla2tools.jar
/venv/bin/python -c "import numpy, h5py, sympy, scipy, yaml, jsonschema, hypothesis; import sys; sys.path.insert(0,'/repo/src'); import aurel" >/dev/null
mkdir -p evidence replays
echo "setup ok"
