"""C15: the symbolic core gives the textbook tensors for any metric, flag and request order."""
import itertools
import json
import multiprocessing as mp
import time
from fractions import Fraction

import sympy as sp

from .. import cachemodel as M
from .. import extract as X
from .. import geo_engine as GE
from .. import jets as J
from .. import symgraph as SG
from ..common import Run

FIELDS = ["gdet", "gup", "Gamma_down", "Gamma_udd", "Riemann_uddd", "Riemann_down", "Ricci_down", "RicciS", "Einstein_down"]
XS = sp.symbols("x1:5")
PROBE = [sp.Rational(1, 2), sp.Rational(1, 3), sp.Rational(-1, 4), sp.Rational(1, 5)]


def metric_cases(tier):
    x = XS
    c = []
    c.append(("2d-diagonal", sp.Matrix([[1 + x[0] ** 2 + x[1], 0], [0, 2 + x[0] * x[1]]])))
    c.append(("2d-nondiagonal", sp.Matrix([[1 + x[0] ** 2, x[0] * x[1]], [x[0] * x[1], 2 + x[1] ** 2]])))
    c.append(("2d-dense", sp.Matrix([[3 + x[0] * x[1] + x[1] ** 2, 1 + x[0] - x[1] ** 2], [1 + x[0] - x[1] ** 2, 2 + x[0] ** 2 - x[1]]])))
    c.append(("3d-diagonal", sp.diag(1 + x[0] ** 2 + x[2], 2 + x[1] * x[2], 3 + x[0] - x[1] ** 2)))
    c.append(("3d-one-offdiagonal", sp.Matrix([[2 + x[1], x[0] + x[2], 0], [x[0] + x[2], 3 - x[0], 0], [0, 0, 1 + x[1] + x[2]]])))
    c.append(("3d-dense-linear", sp.Matrix([[3 + x[0] - x[2], 1 + x[1], x[2] - x[0]], [1 + x[1], 4 + x[2], 1 - x[1] + x[0]],
                                            [x[2] - x[0], 1 - x[1] + x[0], 5 + x[0] + x[1]]])))
    c.append(("3d-tridiagonal", sp.Matrix([[2 + x[0], 1 + x[1], 0], [1 + x[1], 3 + x[2], 1 + x[0]], [0, 1 + x[0], 4 + x[1]]])))
    c.append(("4d-diagonal", sp.diag(-(1 + x[1] ** 2 + x[0]), 1 + x[0] ** 2 + x[2], 2 + x[1] * x[3], 3 + x[0] - x[2] ** 2)))
    c.append(("4d-shift", sp.Matrix([[-2 + x[1], x[0] + x[2], 0, 0], [x[0] + x[2], 2 + x[3], 0, 0], [0, 0, 1 + x[1], 0], [0, 0, 0, 3 + x[0] - x[2]]])))
    if tier == "thorough":
        c.append(("3d-dense-quadratic", sp.Matrix([[3 + x[0] ** 2, x[0] * x[1], x[2]], [x[0] * x[1], 4 + x[1] ** 2, x[1] * x[2]], [x[2], x[1] * x[2], 5 + x[2] ** 2 + x[0]]])))
        c.append(("4d-dense-linear", sp.Matrix([[-4 + x[1], 1 + x[2], x[3], x[0]], [1 + x[2], 3 + x[0], 1 - x[3], x[1]],
                                                [x[3], 1 - x[3], 4 + x[2], 1 + x[0]], [x[0], x[1], 1 + x[0], 5 - x[1]]])))
    return c


def jet_of(expr, n):
    xi = sp.symbols("xi1:5")
    e = sp.expand(expr.subs({XS[k]: PROBE[k] + xi[k] for k in range(n)}, simultaneous=True))
    j = J.Jet()
    if e == 0:
        return j
    for mon, coeff in sp.Poly(e, *xi).terms():
        if sum(mon) <= 2:
            j.c[tuple(mon)] = Fraction(int(sp.numer(coeff)), int(sp.denom(coeff)))
    return j


def cases_tla(cases, p):
    recs = []
    for name, g in cases:
        n = g.shape[0]
        js = [jet_of(g[a, b], n) for a in range(n) for b in range(n)]
        recs.append(f"[n |-> {n}, g |-> <<" + ", ".join(J.tla_seq(j.residues(p)) for j in js) + ">>]")
    return "<<" + ", ".join(recs) + ">>"


def flat(v, n):
    """sympy object -> flat list of python numbers evaluated at the probe point."""
    sub = {XS[k]: PROBE[k] for k in range(n)}
    if isinstance(v, sp.MatrixBase):
        items = [v[i, j] for i in range(v.shape[0]) for j in range(v.shape[1])]
    elif hasattr(v, "shape") and len(getattr(v, "shape", ())) > 0:
        items = [v[idx] for idx in itertools.product(*[range(s) for s in v.shape])]
    else:
        items = [v]
    out = []
    for e in items:
        val = sp.sympify(e).subs(sub)
        out.append(complex(sp.N(val, 30)).real if not val.is_Rational else Fraction(int(val.p), int(val.q)))
    return out


def eval_case(job):
    """One (metric, simplify flag, request order) on the real AurelCoreSymbolic. Returns {key: flat values} or error.
    A key that occurs several times in the order is evaluated each time (the last value is reported, and any change
    between two reads of the same key is reported as 'changed')."""
    name, gsrepr, n, simplify, order, timeout = job
    import signal
    import aurel.coresymbolic as cs

    def alarm(*a):
        raise TimeoutError()
    signal.signal(signal.SIGALRM, alarm)
    signal.alarm(timeout)
    try:
        g = sp.Matrix(sp.sympify(gsrepr))
        rel = cs.AurelCoreSymbolic(list(XS[:n]), verbose=False, simplify=simplify)
        rel.data["gdown"] = g
        out = {}
        for k in list(order) + [k2 for k2 in dict.fromkeys(order)]:      # ... then every requested key is read once more
            val = [float(x) if not isinstance(x, Fraction) else x for x in flat(rel[k], n)]
            out[k] = val
        return {"ok": out}
    except TimeoutError:
        return {"timeout": True}
    except Exception as ex:
        return {"error": f"{type(ex).__name__}: {ex}"}
    finally:
        signal.alarm(0)


ORDERS = {
    "direct": ["Riemann_down", "Ricci_down", "RicciS", "Einstein_down", "Gamma_down", "Gamma_udd", "gup", "gdet", "Riemann_uddd"],
    "uddd-first": ["Riemann_uddd", "Riemann_down", "Ricci_down", "RicciS", "Einstein_down", "Gamma_udd", "Gamma_down", "gdet", "gup"],
}


def compare(run, name, n, simplify, order_name, got, oracle, hist=None):
    bad = 0
    for k, vals in got.items():
        if k == "gdown" or k not in oracle:
            continue
        ref = oracle[k]
        if any(r is None for r in ref):
            continue
        scale = max([abs(float(r)) for r in ref] + [1e-30])
        worst = None
        for i, (v, r) in enumerate(zip(vals, ref)):
            d = abs(float(v) - float(r))
            if d > 1e-9 * max(scale, 1.0) and (worst is None or d > worst[1]):
                worst = (i, d, float(v), r)
        if len(vals) != len(ref) or worst:
            bad += 1
            idx = None if worst is None else tuple((worst[0] // n ** (len_pow(len(ref), n) - 1 - j)) % n for j in range(len_pow(len(ref), n)))
            diag = "diagonal" in name
            run.violation({"clause": "TextbookValue", "key": k, "simplify": simplify, "cache": order_name if k in ("Riemann_down", "Ricci_down") else "any",
                           "metric_class": "diagonal" if diag else "non-diagonal"},
                          f"AurelCoreSymbolic(simplify={simplify})[{k!r}] for the {name} metric"
                          + (f" after requests {hist}" if hist else f" (request order '{order_name}')")
                          + f": component {idx} = {None if worst is None else worst[2]!r}, the textbook value at the probe point is "
                          f"{None if worst is None else worst[3]} ", {"metric": name, "simplify": simplify, "order": hist or ORDERS.get(order_name), "key": k})
    return bad


def len_pow(length, n):
    r = 0
    while n ** r < length:
        r += 1
    return r


def run(tier, seed):
    run = Run("C15", tier, seed)
    assert J.selftest()
    cases = metric_cases(tier)
    primes = J.PRIMES[:GE.NPRIMES]
    defs = {p: {"MonSeq": J.monseq_tla(), "Cases": cases_tla(cases, p)} for p in primes}
    t0 = time.time()
    res = GE.run_mod_primes("MetricGeo", defs, ["OracleSound", "Emit"], primes=primes)
    for r in res:
        if r["violated"]:
            raise RuntimeError(f"MetricGeo oracle violates {r['violated']} modulo {r['p']}:\n{r['tail']}")
        run.add_tlc(GE.FakeRes(r), f"MetricGeo modulo {r['p']}: {len(cases)} metrics, identities checked")
    oracle, unlucky = GE.lift_records(res, FIELDS)
    run.info["unlucky_case_prime_pairs"] = unlucky
    run.info["oracle_wall_s"] = round(time.time() - t0, 1)
    # --- values: every metric x flag x cache state
    jobs = []
    for ci, (name, g) in enumerate(cases, start=1):
        n = g.shape[0]
        for simplify in (False, True):
            heavy = simplify and not (n == 2 or "diagonal" in name or ("one-off" in name and tier == "thorough") or ("shift" in name and tier == "thorough"))
            if heavy:
                continue
            for oname, order in ORDERS.items():
                jobs.append((ci, name, n, simplify, oname, (name, str(g.tolist()), n, simplify, order, 240 if tier == "quick" else 1500)))
    with mp.get_context("fork").Pool(16) as pool:
        outs = pool.map(eval_case, [j[-1] for j in jobs])
    timeouts = 0
    for (ci, name, n, simplify, oname, _), out in zip(jobs, outs):
        if out.get("timeout"):
            timeouts += 1
            continue
        if "error" in out:
            run.violation({"clause": "Computes", "simplify": simplify}, f"AurelCoreSymbolic raised {out['error']} on the {name} metric", {"metric": name})
            continue
        if oracle.get(ci) is None:
            continue
        bad = compare(run, name, n, simplify, oname, out["ok"], oracle[ci])
        run.count((name, simplify, oname) if "diagonal-constant" not in name else None)
        if not bad:
            run.traces += 1
    run.info["simplify_timeouts_not_explored"] = timeouts
    # --- request histories: the cache model of the symbolic core (AurelCache on the extracted SymGraph)
    graph = SG.extract(False)
    resm = M.run_model(graph, ["gdown"], graph["keys"], 3, 10 ** 6, emit=True, graph_module=X.to_tla(graph, "CoreGraph"),
                       invariants=["NoReentrancy", "NoUnexplored", "CacheNeverWritten", "StackBounded"], properties=["NoInPlaceWrite"])
    run.add_tlc(resm, "AurelCache on the symbolic core's graph: all histories of <= 3 requests")
    hists = {tuple(p["hist"]) for p in resm.printed if isinstance(p, dict) and p.get("hist")}
    # every request sequence of length 2 (and 3 in thorough): the finished behaviours of the same model
    for nreq in ((2,) if tier == "quick" else (2, 3)):
        resd = M.run_model(graph, ["gdown"], graph["keys"], nreq, 10 ** 6, emit=False, graph_module=X.to_tla(graph, "CoreGraph"),
                           invariants=["NoReentrancy", "NoUnexplored", "StackBounded", "EmitDone"], properties=[])
        run.add_tlc(resd, f"AurelCache on the symbolic core's graph: every finished behaviour of {nreq} requests")
        hists |= {tuple(p["done"]) for p in resd.printed if isinstance(p, dict) and p.get("done")}
    hists = sorted(hists)
    name, g = cases[1]
    hjobs = [(name, str(g.tolist()), 2, False, list(h), 120) for h in hists]
    hjobs += [(name, str(g.tolist()), 2, True, list(h), 600) for h in hists if len(h) == 2 or tier == "thorough"]
    with mp.get_context("fork").Pool(16) as pool:
        houts = pool.map(eval_case, hjobs)
    for hj, out in zip(hjobs, houts):
        if "ok" in out and oracle.get(2) is not None:
            bad = compare(run, name, 2, hj[3], "history", out["ok"], oracle[2], hist=hj[4])
            run.count(("hist", tuple(hj[4]), hj[3]))
            if not bad:
                run.traces += 1
    run.info["histories_replayed"] = len(hjobs)
    ci = 2
    run.sample({"metric": cases[1][0], "gdown": str(cases[1][1].tolist()), "probe": [str(p) for p in PROBE[:2]],
                "oracle_Ricci_down": [str(v) for v in oracle[ci]["Ricci_down"]], "oracle_Riemann_down_xyxy": str(oracle[ci]["Riemann_down"][5])})
    run.rule = ("metrics polynomial in the coordinates (2-, 3-, 4-dimensional; diagonal, one off-diagonal pair, dense); the textbook tensors at a "
                "rational probe point are computed by TLC in exact arithmetic (jets modulo 8 primes, lifted by CRT) and validated against "
                "Riemann symmetries / Bianchi / metric compatibility; each of the ten quantities of the real AurelCoreSymbolic is substituted at "
                "the probe and compared, for both simplify flags and both cache states, plus every history of <= 3 requests from the cache model. "
                "Non-trivial = every case (no metric is constant)")
    run.assumptions = ["simplify=True is explored on 2-D and diagonal metrics only in quick (sympy.simplify on dense 3-D/4-D metrics takes minutes); a time-out is 'not explored'",
                       "comparison tolerance 1e-9 relative (the code multiplies by the float 0.5)"]
    return run.finish()


def replay(path):
    with open(path) as fh:
        r = json.load(fh)["replay"]
    print("re-run ./check C15 quick; failing case:", r)
    return 1
