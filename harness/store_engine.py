"""Conformance of save_data / read_data (Aurel format) with spec/store/AurelStore.tla.

The dictionary family, selections and queries are defined here once, rendered as TLA+ constants for
TLC, and used to build the real argument objects.  Array values encode the token
(dictionary, variable, position) so that the content of every dataset on disk can be decoded back.
"""
import copy
import glob
import json
import multiprocessing as mp
import os
import shutil
import tempfile

import h5py
import numpy as np

from .tlc import run_tlc, wrapper

VARS = ["alpha", "betaup3", "mass"]  # alpha: scalar field, betaup3: rank-1 tensor field saved under the name of an AurelCore tensor, mass: one number per iteration
DICTS = [
    # it column, hasT, cols: 1 = array, 0 = None entry; [] = None column
    {"it": [0, 10, 20], "hasT": True, "cols": {"alpha": [1, 1, 1], "betaup3": [1, 1, 1]}},
    {"it": [20, 0, 10], "hasT": True, "cols": {"alpha": [1, 0, 1], "betaup3": []}},
    {"it": [], "hasT": False, "cols": {"alpha": [1, 1], "betaup3": [1, 1]}},
    {"it": [10, 30], "hasT": False, "cols": {"alpha": [1, 1], "betaup3": [0, 1]}},
]
# second family: a dictionary as read_data / over_time return it (numpy columns, numpy 'it'), with a scalar-valued variable
DICTS_B = [
    {"it": [0, 10, 20], "hasT": True, "cols": {"alpha": [1, 1, 1], "betaup3": [1, 1, 1]}},
    {"it": [30, 10], "hasT": True, "numpy": True, "cols": {"alpha": [1, 1], "betaup3": [], "mass": [1, 1]}},
]
ITSELS_B = [[10], [30, 10], [0, 10, 20]]
VARSELS_B = [[], ["mass"], ["alpha"]]
QUERIES_B = [
    {"it": [0, 10, 20, 30], "vars": [], "rl": 0},
    {"it": [30, 10], "vars": ["mass", "alpha"], "rl": 0},
    {"it": [10, 30], "vars": [], "rl": 1},
    {"it": [10, 20], "vars": ["t", "mass"], "rl": 0},
]
ITSELS = [[0], [20], [0, 10, 20], [20, 0], [10, 10], [10, 30], [5, 10]]
VARSELS = [[], ["alpha"], ["betaup3"]]
LEVELS = [0, 1]
QUERIES = [
    {"it": [0, 10, 20, 30], "vars": [], "rl": 0},
    {"it": [20, 5, 0], "vars": ["alpha", "gamma"], "rl": 0},
    {"it": [10, 30], "vars": [], "rl": 1},
    {"it": [0, 10], "vars": ["alpha", "t"], "rl": 0},     # the time column named explicitly
    {"it": [20, 10], "vars": ["betaup3"], "rl": 0},       # a variable saved under the name of an AurelCore tensor, read back by that name
]


def tla_seq(xs, f=str):
    return "<<" + ", ".join(f(x) for x in xs) + ">>"


def q(s):
    return '"' + s + '"'


def constants(dicts=DICTS, itsels=ITSELS, varsels=VARSELS, levels=LEVELS, queries=QUERIES):
    ds = []
    for d in dicts:
        cols = " @@ ".join(f"{q(v)} :> {tla_seq(c)}" for v, c in d["cols"].items())
        ds.append(f"[it |-> {tla_seq(d['it'])}, hasT |-> {'TRUE' if d['hasT'] else 'FALSE'}, cols |-> ({cols})]")
    return {
        "Dicts": tla_seq(ds),
        "ItSels": "{" + ", ".join(tla_seq(s) for s in itsels) + "}",
        "VarSels": "{" + ", ".join(tla_seq(s, q) for s in varsels) + "}",
        "Levels": "{" + ", ".join(str(l) for l in levels) + "}",
        "Queries": "{" + ", ".join(f"[it |-> {tla_seq(x['it'])}, vars |-> {tla_seq(x['vars'], q)}, rl |-> {x['rl']}]" for x in queries) + "}",
    }


def run_spec(max_ops, simulate=None, seed=None, dicts=DICTS, **kw):
    name, text, cl = wrapper("AurelStore", constants(dicts=dicts, **kw))
    cfg = f"""SPECIFICATION Spec
CONSTANTS
{cl}
  MaxOps = {max_ops}
  Emit = TRUE
INVARIANT ColumnsAligned
INVARIANT RoundTrip
INVARIANT EmitState
PROPERTY SaveIsLocal
PROPERTY NothingLost
"""
    kws = {}
    if simulate:
        kws = dict(simulate=f"num={simulate}", depth=max_ops + 1, seed=seed)
    return run_tlc(name, cfg, ["store"], extra_files={name + ".tla": text}, timeout=3000, **kws)


# ---------------------------------------------------------------------------
DTYPES = {1: np.float64, 2: np.float64, 3: np.float32, 4: np.int64}   # arrays of different dictionaries differ in dtype too


def code(d, v, p):
    return d * 1000 + (VARS.index(v) + 1) * 100 + p


def make_value(di, v, p):
    """The array saved for (dictionary di, variable v, position p): content and dtype identify the token."""
    dt = DTYPES.get(di, np.float64)
    frac = 0 if dt is np.int64 else 0.25
    if v == "mass":
        return np.float64(code(di, v, p) + 0.25)
    if v == "alpha":
        return np.full((2, 3, 2), code(di, v, p) + frac).astype(dt)
    return np.stack([np.full((2, 3, 2), code(di, v, p) + frac + (0 if dt is np.int64 else 0.0625 * c)) + (c if dt is np.int64 else 0)
                     for c in range(3)]).astype(dt) if dt is not np.int64 else \
        np.stack([np.full((2, 3, 2), code(di, v, p) + 10000 * c) for c in range(3)]).astype(dt)


def make_dict(di, dicts=DICTS):
    """Real dictionary for model dictionary number di (1-based)."""
    d = dicts[di - 1]
    out = {}
    if d["it"]:
        out["it"] = list(d["it"])
    n = len(d["it"]) if d["it"] else max(len(c) for c in d["cols"].values())
    if d["hasT"]:
        out["t"] = [di * 1000 + 900 + p + 0.5 for p in range(1, n + 1)]
    for v, col in d["cols"].items():
        if not col:
            out[v] = None
            continue
        lst = []
        for p, present in enumerate(col, start=1):
            if not present:
                lst.append(None)
            else:
                lst.append(make_value(di, v, p))
        out[v] = lst
    if d.get("numpy"):
        out = {k: (np.array(v) if v is not None and all(x is not None for x in v) else v) for k, v in out.items()}
    return out


def decode_value(v, val, it):
    """array/scalar from disk or from a returned column -> token dict or a description of garbage."""
    if val is None:
        return {"d": 0, "v": "", "p": 0}
    a = np.asarray(val)
    if v == "it":
        return {"d": -1, "v": "it", "p": int(a)}          # compared by value (= the iteration)
    if v == "t":
        x = float(a)
        d = int(x // 1000)
        p = int(round(x - d * 1000 - 900 - 0.5))
        ok = abs(x - (d * 1000 + 900 + p + 0.5)) < 1e-9
        return {"d": d, "v": "t", "p": p} if ok else {"garbage": x}
    if v == "mass" and a.shape != ():
        return {"garbage": "mass is one number per iteration", "shape": list(a.shape)}
    flat = a.reshape(-1)
    c = int(np.floor(float(flat[0])))
    d, rest = divmod(c, 1000)
    vi, p = divmod(rest, 100)
    if vi - 1 not in range(len(VARS)) or VARS[vi - 1] != v or d not in DTYPES:
        return {"garbage": float(flat[0]), "filed_as": v}
    want = make_value(d, v, p)
    ok = a.shape == want.shape and a.dtype == want.dtype and np.array_equal(a, want)
    return {"d": d, "v": v, "p": p} if ok else {"garbage": "not the array that was saved", "shape": list(a.shape), "dtype": str(a.dtype),
                                                "first": float(flat[0]), "saved_dtype": str(want.dtype), "saved_first": float(want.reshape(-1)[0])}


def decode_disk(path):
    out = set()
    garbage = []
    for fn in glob.glob(os.path.join(path, "it_*.hdf5")):
        i = int(os.path.basename(fn)[3:-5])
        with h5py.File(fn, "r") as f:
            for key in f.keys():
                if " rl=" not in key:
                    garbage.append((i, key))
                    continue
                v, rl = key.rsplit(" rl=", 1)
                tok = decode_value(v, np.array(f[key]), i)
                if "garbage" in tok:
                    garbage.append((i, key, tok))
                    continue
                if v == "it":
                    out.add((i, "it", int(rl), "it", tok["p"]))
                else:
                    out.add((i, v, int(rl), tok["d"], tok["p"]))
    return out, garbage


def model_disk(rec, dicts=DICTS):
    out = set()
    for r in rec["disk"]:
        t = r["tok"]
        if r["v"] == "it":
            out.add((r["i"], "it", r["rl"], "it", dicts[t["d"] - 1]["it"][t["p"] - 1]))
        else:
            out.add((r["i"], r["v"], r["rl"], t["d"], t["p"]))
    return out


def deep_equal(a, b):
    if isinstance(a, np.ndarray) or isinstance(b, np.ndarray):
        return isinstance(a, np.ndarray) and isinstance(b, np.ndarray) and a.shape == b.shape and np.array_equal(a, b)
    if isinstance(a, dict):
        return isinstance(b, dict) and list(a.keys()) == list(b.keys()) and all(deep_equal(a[k], b[k]) for k in a)
    if isinstance(a, (list, tuple)):
        return type(a) is type(b) and len(a) == len(b) and all(deep_equal(x, y) for x, y in zip(a, b))
    return a == b and type(a) is type(b)


def replay_group(args):
    """One behaviour prefix (hist) with the set of disk states the spec allows after it. Returns findings."""
    hist, allowed, dicts = args
    import aurel.reading as R
    findings = []
    tmp = tempfile.mkdtemp(prefix="vstore_")
    try:
        slash = (len(hist) + sum(op["rl"] for op in hist)) % 2 == 0
        datapath = os.path.join(tmp, "store") + ("/" if slash else "")
        param = {"datapath": datapath}
        raised = None
        for n, op in enumerate(hist):
            if n == len(hist) - 1:
                # reads and saves interleave in real use: look at the store before the last save (the result is not examined here;
                # what was true before a save must not stick to later reads)
                try:
                    R.read_data(dict(param), it=[0, 5, 10, 20, 30], vars=[], rl=op["rl"])
                except Exception:
                    pass
            data = make_dict(op["d"], dicts)
            it_arg = list(op["it"])
            vars_arg = list(op["vars"])
            snap = (copy.deepcopy(data), list(it_arg), list(vars_arg), dict(param))
            kw = {"it": it_arg, "rl": op["rl"]}
            if op["vars"] or n % 2 == 0:
                kw["vars"] = vars_arg
            try:
                R.save_data(param, data, **kw)
                raised = None
            except Exception as ex:
                raised = type(ex).__name__
            if not (deep_equal(data, snap[0]) and it_arg == snap[1] and vars_arg == snap[2] and param == snap[3]):
                what = []
                if vars_arg != snap[2]:
                    what.append(f"vars {snap[2]} -> {vars_arg}")
                if it_arg != snap[1]:
                    what.append(f"it {snap[1]} -> {it_arg}")
                if not deep_equal(data, snap[0]):
                    what.append("data dictionary changed")
                if param != snap[3]:
                    what.append(f"param {snap[3]} -> {param}")
                    param.clear()
                    param.update(snap[3])
                findings.append(("ArgsUntouched", {"clause": "ArgsUntouched", "call": "save_data", "arg": what[0].split(" ")[0]},
                                 f"save_data modified its caller's arguments: {'; '.join(what)}", {"hist": hist, "op": n}))
        real, garbage = decode_disk(datapath)
        last = hist[-1] if hist else None
        ill = False
        if last is not None:
            d = dicts[last["d"] - 1]
            ill = bool(d["it"]) and not set(last["it"]) <= set(d["it"])
        wellformed_raise = raised is not None and not ill
        if garbage:
            findings.append(("RoundTrip", {"clause": "RoundTrip", "kind": "garbage"},
                             f"datasets that do not decode to a saved array: {garbage[:3]}", {"hist": hist}))
        models = [model_disk(a, dicts) for a in allowed]
        if real not in models:
            # describe the difference against the closest allowed state
            best = min(models, key=lambda m: len(m ^ real))
            wrong = sorted(real - best)[:4]
            missing = sorted(best - real)[:4]
            kind = "misfiled" if wrong else "missing"
            cause = ""
            if last is not None:
                d = dicts[last["d"] - 1]
                if d["it"] and sorted(set(last["it"])) != d["it"][:len(set(last["it"]))]:
                    cause = "subset-or-unsorted-it"
                if any(0 in c for c in d["cols"].values()):
                    cause = cause or "none-entry"
            findings.append(("RoundTrip", {"clause": "RoundTrip", "kind": kind, "cause": cause or "other",
                                           "raised": raised or ""},
                             f"after {fmt_hist(hist)} the store holds (iteration, var, rl, dict, position) {wrong} "
                             f"where the reference semantics has {missing}"
                             + (f"; the last call raised {raised}" if raised else ""),
                             {"hist": hist, "real": sorted(real), "allowed": [sorted(m) for m in models]}))
            return findings
        if wellformed_raise:
            findings.append(("RoundTrip", {"clause": "SaveAccepts", "exc": raised},
                             f"save_data raised {raised} on a well-formed call: {fmt_hist(hist[-1:])}", {"hist": hist}))
        # reads (only meaningful when the disk is in an allowed state): compare with the matching model state
        rec = allowed[models.index(real)]
        for nq, rd in enumerate(sorted(rec["reads"], key=lambda r: json.dumps(r["q"], sort_keys=True))):
            qy = rd["q"]
            it_arg, vars_arg = list(qy["it"]), list(qy["vars"])
            # iteration numbers are numbers: the same request as Python ints, as floats (t / dt), as a numpy integer array
            kind = ("int", "float", "numpy")[(nq + len(hist)) % 3]
            if kind == "float":
                it_arg = [float(i) for i in it_arg]
            elif kind == "numpy":
                it_arg = np.array(it_arg, dtype=np.int64)
            snap = (list(it_arg), list(vars_arg))
            psnap = dict(param)
            try:
                res = R.read_data(param, it=it_arg, vars=vars_arg, rl=qy["rl"])
            except Exception as ex:
                findings.append(("RoundTrip", {"clause": "ReadReturns", "exc": type(ex).__name__},
                                 f"read_data(it={qy['it']} given as {kind}, vars={qy['vars']}, rl={qy['rl']}) raised {type(ex).__name__}: {ex}",
                                 {"hist": hist, "query": qy}))
                continue
            if param != psnap:
                findings.append(("ArgsUntouched", {"clause": "ArgsUntouched", "call": "read_data", "arg": "param"},
                                 f"read_data modified the parameter dictionary it was given: {psnap} -> {param}", {"hist": hist, "query": qy}))
                param.clear()
                param.update(psnap)
            if (list(it_arg), vars_arg) != snap:
                findings.append(("ArgsUntouched", {"clause": "ArgsUntouched", "call": "read_data"},
                                 f"read_data modified its arguments: it {snap[0]} -> {it_arg}, vars {snap[1]} -> {vars_arg}",
                                 {"hist": hist, "query": qy}))
            if list(res["it"]) != list(rd["it"]):
                findings.append(("RoundTrip", {"clause": "ColumnsAligned", "kind": "it"},
                                 f"read_data returned it={list(res['it'])} for request {qy['it']}", {"hist": hist, "query": qy}))
                continue
            want_cols = rd["cols"]
            got_keys = set(res.keys()) - {"it"}
            if got_keys != set(want_cols):
                findings.append(("RoundTrip", {"clause": "ReadColumns", "extra": sorted(got_keys - set(want_cols)),
                                               "missing": sorted(set(want_cols) - got_keys)},
                                 f"read_data(it={qy['it']}, vars={qy['vars']}, rl={qy['rl']}) returned columns {sorted(got_keys)}, "
                                 f"the store has {sorted(want_cols)} (after {fmt_hist(hist)})", {"hist": hist, "query": qy}))
            for v, col in want_cols.items():
                if v not in res:
                    continue
                if len(res[v]) != len(rd["it"]):
                    findings.append(("RoundTrip", {"clause": "ColumnsAligned", "var": v},
                                     f"column {v!r} has {len(res[v])} entries for {len(rd['it'])} requested iterations",
                                     {"hist": hist, "query": qy}))
                    continue
                for n, (cell, want) in enumerate(zip(res[v], col)):
                    tok = decode_value(v, cell, rd["it"][n])
                    w = {"d": want["d"], "v": want["v"], "p": want["p"]}
                    if tok != w:
                        findings.append(("RoundTrip", {"clause": "ReadReturnsSaved", "var": v},
                                         f"read_data returned {tok} for ({v}, it={rd['it'][n]}, rl={qy['rl']}), saved was {w}",
                                         {"hist": hist, "query": qy}))
                        break
    finally:
        shutil.rmtree(tmp, ignore_errors=True)
    return findings


def fmt_hist(hist):
    return "; ".join(f"save_data(D{op['d']}, it={op['it']}, vars={op['vars']}, rl={op['rl']})" for op in hist)


def replay_all(records, dicts=DICTS, procs=16):
    groups = {}
    for r in records:
        groups.setdefault(json.dumps(r["hist"], sort_keys=True), []).append(r)
    jobs = [(g[0]["hist"], g, dicts) for g in groups.values()]
    if len(jobs) < 8:
        return jobs, [replay_group(j) for j in jobs]
    with mp.get_context("fork").Pool(procs) as pool:
        res = pool.map(replay_group, jobs, chunksize=max(1, len(jobs) // (procs * 8)))
    return jobs, res
