----------------------------- MODULE Riemannian -----------------------------
(* Textbook (pseudo-)Riemannian geometry from the jets of a metric, in any   *)
(* dimension n <= 4: the coordinates used are a subset Idx of 1..4           *)
(* (1 = t, 2 = x, 3 = y, 4 = z), a metric is a function                      *)
(* <<a, b>> \in Idx \X Idx -> jet.  All formulas are the definitions:        *)
(*   g^ab         inverse by cofactors / determinant (Laplace expansion)     *)
(*   G_abc        = 1/2 (d_b g_ac + d_c g_ab - d_a g_bc)                      *)
(*   G^a_bc       = g^ad G_dbc                                                *)
(*   R^a_bcd      = d_c G^a_bd - d_d G^a_bc + G^a_ce G^e_bd - G^a_de G^e_bc  *)
(*   R_abcd, R^ab_cd, R_bd = R^a_bad, R, G_ab, Kretschmann, Weyl             *)
(* Quantities with one derivative are jets accurate to first order,          *)
(* curvature quantities are values at the probe point.                       *)
EXTENDS Jet

RECURSIVE SortSeq(_)
SortSeq(S) == IF S = {} THEN << >> ELSE LET m == CHOOSE x \in S : \A y \in S : x <= y IN <<m>> \o SortSeq(S \ {m})
Sign(k)    == IF k % 2 = 0 THEN 1 ELSE P - 1
Below(S, c) == Cardinality({x \in S : x < c})

(* determinant of the sub-matrix with the given rows (a sequence) and columns (a set), by Laplace expansion *)
RECURSIVE DetJ(_, _, _)
DetJ(g, rows, cols) ==
    IF rows = << >> THEN JConst(1)
    ELSE JSumSeq([k \in 1 .. Cardinality(cols) |->
            LET c == SortSeq(cols)[k]
            IN  JScale(Sign(k - 1), JMul(g[<<Head(rows), c>>], DetJ(g, Tail(rows), cols \ {c})))])
Det(g, Idx)     == DetJ(g, SortSeq(Idx), Idx)
(* inverse: g^ab = cofactor_ba / det *)
InverseWith(g, Idx, idet) ==
    [ab \in Idx \X Idx |->
        JMul(idet, JScale(Sign(Below(Idx, ab[1]) + Below(Idx, ab[2])),
                          DetJ(g, SortSeq(Idx \ {ab[2]}), Idx \ {ab[1]})))]
Inverse(g, Idx) == InverseWith(g, Idx, JInv(Det(g, Idx)))

GammaDown(g, Idx) ==
    [abc \in Idx \X Idx \X Idx |->
        JScale(Half, JSub(JAdd(JD(abc[2], g[<<abc[1], abc[3]>>]), JD(abc[3], g[<<abc[1], abc[2]>>])),
                          JD(abc[1], g[<<abc[2], abc[3]>>])))]
GammaUp(gup, gamd, Idx) ==
    [abc \in Idx \X Idx \X Idx |->
        JSumSeq([k \in 1 .. Cardinality(Idx) |->
            LET d == SortSeq(Idx)[k] IN JMul(gup[<<abc[1], d>>], gamd[<<d, abc[2], abc[3]>>])])]

(* sums of residues over an index set *)
SumOver(Idx, F(_)) == SumSeq([k \in 1 .. Cardinality(Idx) |-> F(SortSeq(Idx)[k])])

RiemannUddd(gamu, Idx) ==
    [abcd \in Idx \X Idx \X Idx \X Idx |->
        LET a == abcd[1] b == abcd[2] c == abcd[3] d == abcd[4] IN
        Ad(Sb(JVal(JD(c, gamu[<<a, b, d>>])), JVal(JD(d, gamu[<<a, b, c>>]))),
           Sb(SumOver(Idx, LAMBDA e : Mu(JVal(gamu[<<a, c, e>>]), JVal(gamu[<<e, b, d>>]))),
              SumOver(Idx, LAMBDA e : Mu(JVal(gamu[<<a, d, e>>]), JVal(gamu[<<e, b, c>>])))))]
RiemannDown(ruddd, g, Idx) ==
    [abcd \in Idx \X Idx \X Idx \X Idx |->
        SumOver(Idx, LAMBDA e : Mu(JVal(g[<<abcd[1], e>>]), ruddd[<<e, abcd[2], abcd[3], abcd[4]>>]))]
RiemannUudd(ruddd, gup, Idx) ==
    [abcd \in Idx \X Idx \X Idx \X Idx |->
        SumOver(Idx, LAMBDA e : Mu(JVal(gup[<<abcd[2], e>>]), ruddd[<<abcd[1], e, abcd[3], abcd[4]>>]))]
Ricci(ruddd, Idx)  == [bd \in Idx \X Idx |-> SumOver(Idx, LAMBDA a : ruddd[<<a, bd[1], a, bd[2]>>])]
Trace(t, gup, Idx) == SumOver(Idx, LAMBDA a : SumOver(Idx, LAMBDA b : Mu(JVal(gup[<<a, b>>]), t[<<a, b>>])))
Einstein(ric, rs, g, Idx) == [ab \in Idx \X Idx |-> Sb(ric[ab], Mu(Half, Mu(rs, JVal(g[ab]))))]
Kretschmann(ruudd, Idx) ==
    SumOver(Idx, LAMBDA a : SumOver(Idx, LAMBDA b : SumOver(Idx, LAMBDA c : SumOver(Idx, LAMBDA d :
        Mu(ruudd[<<a, b, c, d>>], ruudd[<<c, d, a, b>>])))))
(* Weyl tensor, all indices down, in dimension n = |Idx| >= 3 *)
Weyl(rdown, ric, rs, g, Idx) ==
    LET n  == Cardinality(Idx)
        i2 == Inv(n - 2)
        i3 == Inv(Mu(n - 1, n - 2))
        G(a, b) == JVal(g[<<a, b>>])
    IN  [abcd \in Idx \X Idx \X Idx \X Idx |->
            LET a == abcd[1] b == abcd[2] c == abcd[3] d == abcd[4] IN
            Ad(Sb(rdown[abcd],
                  Mu(i2, Ad(Sb(Mu(G(a, c), ric[<<d, b>>]), Mu(G(a, d), ric[<<c, b>>])),
                            Sb(Mu(G(b, d), ric[<<c, a>>]), Mu(G(b, c), ric[<<d, a>>]))))),
               Mu(Mu(rs, i3), Sb(Mu(G(a, c), G(d, b)), Mu(G(a, d), G(c, b)))))]

-----------------------------------------------------------------------------
(* identities the oracle is validated against (they were not used to write it) *)
RiemannSymmetries(rdown, Idx) ==
    \A a, b, c, d \in Idx :
        /\ rdown[<<a, b, c, d>>] = Ng(rdown[<<b, a, c, d>>])
        /\ rdown[<<a, b, c, d>>] = Ng(rdown[<<a, b, d, c>>])
        /\ rdown[<<a, b, c, d>>] = rdown[<<c, d, a, b>>]
        /\ Ad(rdown[<<a, b, c, d>>], Ad(rdown[<<a, c, d, b>>], rdown[<<a, d, b, c>>])) = 0      \* first Bianchi
InverseIsInverse(g, gup, Idx) ==
    \A a, b \in Idx : JVal(JSumSeq([k \in 1 .. Cardinality(Idx) |-> LET e == SortSeq(Idx)[k] IN JMul(gup[<<a, e>>], g[<<e, b>>])]))
                       = (IF a = b THEN 1 ELSE 0)
(* metric compatibility: d_c g_ab - G^e_ca g_eb - G^e_cb g_ae = 0 at the probe *)
MetricCompatible(g, gamu, Idx) ==
    \A a, b, c \in Idx :
        Sb(JVal(JD(c, g[<<a, b>>])),
           Ad(SumOver(Idx, LAMBDA e : Mu(JVal(gamu[<<e, c, a>>]), JVal(g[<<e, b>>]))),
              SumOver(Idx, LAMBDA e : Mu(JVal(gamu[<<e, c, b>>]), JVal(g[<<a, e>>]))))) = 0
WeylTraceFree(w, gup, Idx) ==
    \A b, d \in Idx : SumOver(Idx, LAMBDA a : SumOver(Idx, LAMBDA c : Mu(JVal(gup[<<a, c>>]), w[<<a, b, c, d>>]))) = 0
=============================================================================
