"""C02, second half: argument objects of over_time / save_data / read_data are left untouched."""
import json
import random


def check_arguments(run, tier, seed):
    from .. import overtime_engine as O
    from .. import store_engine as S
    from . import c14
    # --- over_time: per-step arrays (byte digests) and the vars / estimates lists
    r = O.run_spec(2)
    run.add_tlc(r, "OverTime: behaviours used for the argument checks")
    beh = c14.behaviours(r.printed)
    rng = random.Random(seed)
    rng.shuffle(beh)
    jobs = [(b, {}) for b in beh[: (150 if tier == "quick" else 1500)]] + c14.driver_jobs() + [c14.all_estimators_job()]
    res = O.pmap(O.check_behaviour, jobs)
    n = 0
    for (b, kw), fnds in zip(jobs, res):
        n += 1
        for pid, sig, what, rep in fnds:
            if pid == "C02":
                run.violation(sig, what, rep)
    run.info["over_time_argument_checks"] = n
    # --- save_data / read_data
    rs = S.run_spec(1)
    run.add_tlc(rs, "AurelStore: single saves used for the argument checks")
    jobs2, res2 = S.replay_all(rs.printed)
    m = 0
    for (hist, allowed, _), fnds in zip(jobs2, res2):
        m += 1
        for clause, sig, what, rep in fnds:
            if clause == "ArgsUntouched":
                run.violation(sig, what, rep)
    run.info["save_read_argument_checks"] = m
    # --- read_data on Einstein Toolkit output: every argument shape the reader accepts, including the time coordinate and a
    # tensor named next to its components; only the caller's objects are examined here (C11 / C12 decide the returned data)
    k = et_arguments(run)
    run.info["et_read_argument_checks"] = k
    h = helper_arguments(run)
    run.info["public_helper_argument_checks"] = h
    run.traces += n + m + k + h


def helper_arguments(run):
    """The public array helpers (maths, numerical, reading.join_chunks / fixij, FiniteDifference methods) leave what they are given untouched."""
    import copy
    import numpy as np
    import aurel.maths as mt
    import aurel.numerical as num
    import aurel.reading as R
    from .. import fields
    rng = np.random.default_rng(5)
    fd = fields.make_fd(N=7, order=4)
    sh = fd.x.shape
    sym3 = rng.normal(size=(3, 3) + sh)
    sym3 = sym3 + np.swapaxes(sym3, 0, 1) + 4 * np.eye(3)[(...,) + (None,) * 3]
    g4 = rng.normal(size=(4, 4) + sh)
    g4 = g4 + np.swapaxes(g4, 0, 1) + 6 * np.diag([-1.0, 1, 1, 1])[(...,) + (None,) * 3]
    t3 = rng.normal(size=(3, 3) + sh)
    zb = rng.normal(size=sh)
    zb[0, 0, 0] = 0.0
    th = np.pi * (np.arange(8) + 0.5) / 8
    ph = 2 * np.pi * (np.arange(16) + 0.5) / 16
    TH, PH = np.meshgrid(th, ph, indexing="ij")
    fcomplex = (rng.normal(size=TH.shape) + 1j * rng.normal(size=TH.shape)).astype(np.complex128)
    alm = {(l, m_): complex(rng.normal(), rng.normal()) for l in range(3) for m_ in range(-l, l + 1)}
    chunks = {(0, 0, 0): rng.normal(size=(2, 3, 2)), (2, 0, 0): rng.normal(size=(2, 3, 2)), (0, 0, 2): rng.normal(size=(2, 3, 2)),
              (2, 0, 2): rng.normal(size=(2, 3, 2))}
    grid = (fd.xarray, fd.yarray, fd.zarray)
    tgt = tuple(np.array([[a[1] + 0.3 * (a[2] - a[1])]]) for a in grid)
    calls = {
        "maths.determinant3": lambda a: mt.determinant3(a["sym3"]),
        "maths.inverse3": lambda a: mt.inverse3(a["sym3"]),
        "maths.determinant4": lambda a: mt.determinant4(a["g4"]),
        "maths.inverse4": lambda a: mt.inverse4(a["g4"]),
        "maths.symmetrise_tensor": lambda a: mt.symmetrise_tensor(a["t3"]),
        "maths.antisymmetrise_tensor": lambda a: mt.antisymmetrise_tensor(a["t3"]),
        "maths.safe_division": lambda a: mt.safe_division(a["t3"][0, 0], a["zb"]),
        "maths.sYlm": lambda a: mt.sYlm(-2, 2, 1, a["TH"], a["PH"]),
        "maths.sYlm_coefficients": lambda a: mt.sYlm_coefficients(-2, 2, a["fcomplex"], a["TH"], a["PH"], a["w"], 2 * np.pi / 16),
        "maths.sYlm_reconstruct": lambda a: mt.sYlm_reconstruct(-2, 2, a["alm"], a["TH"], a["PH"]),
        "numerical.interpolate": lambda a: num.interpolate(a["zb"], a["grid"], a["tgt"]),
        "reading.join_chunks": lambda a: R.join_chunks(a["chunks"]),
        "reading.fixij": lambda a: R.fixij(a["zb"]),
        "fd.d3_scalar": lambda a: fd.d3_scalar(a["zb"]),
        "fd.d3_rank2tensor": lambda a: fd.d3_rank2tensor(a["t3"]),
        "fd.cutoffmask": lambda a: fd.cutoffmask(a["zb"]),
        "fd.cartesian_to_spherical": lambda a: fd.cartesian_to_spherical(a["x"], a["y"], a["z"]),
        "fd.spherical_to_cartesian": lambda a: fd.spherical_to_cartesian(a["r"], a["TH3"], a["PH3"]),
    }
    args0 = {"sym3": sym3, "g4": g4, "t3": t3, "zb": zb, "TH": TH, "PH": PH, "fcomplex": fcomplex, "w": np.sin(TH) * (np.pi / 8), "alm": alm,
             "chunks": chunks, "grid": grid, "tgt": tgt, "x": fd.x.copy(), "y": fd.y.copy(), "z": fd.z.copy(),
             "r": np.full(sh, 1.5), "TH3": np.full(sh, 0.7), "PH3": np.full(sh, 4.0)}

    def same(a, b):
        if isinstance(a, dict):
            return isinstance(b, dict) and list(a.keys()) == list(b.keys()) and all(same(a[k_], b[k_]) for k_ in a)
        if isinstance(a, (tuple, list)):
            return type(a) is type(b) and len(a) == len(b) and all(same(x, y) for x, y in zip(a, b))
        if isinstance(a, np.ndarray):
            return isinstance(b, np.ndarray) and a.dtype == b.dtype and a.shape == b.shape and np.array_equal(a, b, equal_nan=True)
        return a == b
    n = 0
    for name, fn in calls.items():
        args = copy.deepcopy(args0)
        try:
            fn(args)
        except Exception:
            pass
        n += 1
        changed = [k_ for k_ in args0 if not same(args[k_], args0[k_])]
        if changed:
            run.violation({"clause": "ArgsUntouched", "call": name, "arg": changed[0]},
                          f"{name} modified the argument(s) {changed} it was given (arrays / dictionaries compared before and after the call)", {"call": name})
    return n


def et_arguments(run):
    import copy
    import shutil
    import tempfile
    import numpy as np
    from .. import et_engine as E
    from .. import gen_et as G
    import aurel.reading as R
    n = 0
    for li, layout in enumerate(E.LAYOUTS):
        tmp = tempfile.mkdtemp(prefix="vargs_")
        try:
            M = (3, 4, 3)
            G.make_sim(tmp + "/", "sim", [{"lo": 0, "hi": 8, "every": 4}, {"lo": 8, "hi": 16, "every": 4}], M=M, ghost=1,
                       chunks=E.TWO_CHUNKS[1](M), layout=layout, nlev=2)
            param = E.sim_param(tmp, "sim")
            for vars_arg in (["alpha", "t"], ["alpha", "t", "betaup3"], ["betaup3", "betax"], [], ["betay"]):
                for it_arg in ([8, 4], np.array([0, 4, 8, 12]), [4.0]):
                    for split in (True, False):
                        for extra in ({}, {"rl": 1}, {"restart": 0}):
                            if "restart" in extra and max(it_arg) > 8:
                                continue
                            kw = dict(it=it_arg, vars=vars_arg, split_per_it=split, verbose=False, skip_last=False, **extra)
                            snap = copy.deepcopy(kw)
                            psnap = copy.deepcopy(param)
                            try:
                                R.read_data(param, **kw)
                            except Exception:
                                pass
                            n += 1
                            same = all((np.array_equal(kw[a], snap[a]) and type(kw[a]) is type(snap[a])) for a in snap)
                            if not same or param != psnap:
                                changed = [a for a in snap if not (np.array_equal(kw[a], snap[a]) and type(kw[a]) is type(snap[a]))]
                                if param != psnap:
                                    changed.append("param")
                                run.violation({"clause": "ArgsUntouched", "call": "read_data (Einstein Toolkit output)", "arg": changed[0]},
                                              f"read_data(it={snap['it']!r}, vars={snap['vars']!r}, split_per_it={split}, {extra}) on a "
                                              f"{'-'.join(layout)} simulation modified its caller's argument(s) {changed}: "
                                              f"{ {a: (snap[a], kw[a]) for a in changed if a != 'param'} }", {"layout": layout, "vars": snap["vars"]})
                                kw.update(copy.deepcopy(snap))
                                param.clear()
                                param.update(psnap)
        finally:
            shutil.rmtree(tmp, ignore_errors=True)
    return n


def replay(r):
    from .. import overtime_engine as O
    if "state" in r:
        f = [x for x in O.check_behaviour((r["state"], r.get("rel_kwargs", {}))) if x[0] == "C02"]
        for x in f:
            print(x[1], x[2])
        return 1 if f else 0
    return 0
