----------------------------- MODULE AurelCache -----------------------------
(* The lazy cache of aurel.core.AurelCore (core.py:185-323), small-step.     *)
(*                                                                           *)
(* One action per critical section of the code:                              *)
(*   Request(k)  rel[k] issued by the user (hit: touch; miss: push a frame)  *)
(*   Step        the running function body issues its next cache operation   *)
(*               (self[x], self.data[x], 'x' in self.data) - programs are    *)
(*               decision trees extracted from the working tree (CoreGraph)  *)
(*   Return      store the value, count+1, age, cleanup_cache, pop           *)
(*   Raise       an exception unwinds the whole evaluation stack             *)
(*   Freeze      freeze_data(): everything cached gets importance 0          *)
(*   Load        load_data(sim_data, it) between requests: the entries of    *)
(*               sim_data are (re)assigned, then freeze_data()               *)
(* cleanup_cache is part of Return (it runs before __getitem__ returns):     *)
(* the set S it removes is chosen by the policy layer:                       *)
(*   Policy = "any"  : any set of unfrozen entries older than one            *)
(*                     calculation, at any clean-up point  (safety layer:    *)
(*                     over-approximates every setting and importance map)   *)
(*   Policy = "code" : the strain rule of core.py:225-253 with the default   *)
(*                     importances, and, with MemTiny, the memory loop of    *)
(*                     core.py:258-297 run to completion.                    *)
(* The heap part (obj, dirty, handed) models which names share one array     *)
(* object and which objects were written in place after creation.            *)
EXTENDS Integers, Sequences, FiniteSets, TLC, Json

CONSTANTS Keys,         \* storable keys (description keys)
          Helpers,      \* helper calls issued at top level: run like a key but store nothing
          Prog, Start,  \* programs: Prog[k] = sequence of nodes [op, key, a, b, alias, mut, err]
          Size, Imp,    \* size in grid scalars, importance * 1000 (defaults of the code)
          MutKeys,      \* MutKeys[k]: cached entries some branch of k writes in place (partial function)
          Inputs,       \* keys the user puts into rel.data before the first request
          FreezeFirst,  \* BOOLEAN: freeze_data() is called right after the inputs are set
          Requests,     \* keys / helpers the user may request
          MaxRequests,
          ClearEvery,   \* clear_cache_every_nbr_calc >= 1
          MemTiny,      \* BOOLEAN: memory threshold below the size of the inputs
          Policy,       \* "any" | "code"
          MaxStack,     \* bound on the evaluation stack (re-entrancy is flagged before)
          EmitCov,      \* BOOLEAN: print the shortest history reaching each (key, leaf)
          AllowFreeze,  \* BOOLEAN: the user may call freeze_data() between requests
          Functions,    \* tokens "item:<name>": rel["<name>"] for a method that takes arguments returns the method itself
          LoadKeys      \* keys of the dictionary the user may hand to load_data() between requests ({}: load_data is not called)

VARIABLES data,     \* set of cached keys                     (keys of rel.data)
          age,      \* last_accessed : partial function Keys -> Nat
          count,    \* calculation_count
          frozen,   \* keys with importance 0
          stack,    \* evaluation stack: sequence of [key, node, held]; held = objects this frame keeps a
                    \* reference to (only tracked for entries the frame may write in place)
          nreq,     \* top-level requests issued so far
          hist,     \* the requests themselves (what the user did)
          obj,      \* object identity of every cached value: [k |-> key, c |-> creation count]
          dirty,    \* objects written in place after creation
          handed,   \* objects the user holds: inputs and everything returned so far
          status,   \* "ok" | name of the exception that ended the last request
          nset      \* number of rel.data[k] = v assignments made by the user after construction

vars == <<data, age, count, frozen, stack, nreq, hist, obj, dirty, handed, status, nset>>

Top      == stack[Len(stack)]
Node(f)  == Prog[f.key][f.node]
Since(a, c, x) == c - a[x]
InputObj(k) == [k |-> k, c |-> 0]
MutOf(k)    == IF k \in DOMAIN MutKeys THEN MutKeys[k] ELSE {}
Frame(k)    == [key |-> k, node |-> Start[k], held |-> << >>]
Hold(f, x, o) == IF x \in MutOf(f.key) THEN [f EXCEPT !.held = [y \in (DOMAIN f.held) \cup {x} |-> IF y = x THEN o ELSE f.held[y]]] ELSE f

Init == /\ data = Inputs
        /\ age = << >>                      \* rel.data[k] = v does not touch last_accessed
        /\ count = 0
        /\ frozen = IF FreezeFirst THEN Inputs ELSE {}
        /\ stack = << >>
        /\ nreq = 0
        /\ hist = << >>
        /\ obj = [k \in Inputs |-> InputObj(k)]
        /\ dirty = {}
        /\ handed = {InputObj(k) : k \in Inputs}
        /\ status = "ok" /\ nset = 0

Touch(a, x, c) == [y \in (DOMAIN a) \cup {x} |-> IF y = x THEN c ELSE a[y]]

-----------------------------------------------------------------------------
(* user actions *)
Request(k) ==
    /\ stack = << >> /\ nreq < MaxRequests /\ k \in Requests
    /\ nreq' = nreq + 1 /\ hist' = Append(hist, k) /\ status' = "ok" /\ nset' = nset
    /\ IF k \in data
       THEN /\ age' = Touch(age, k, count)
            /\ handed' = handed \cup {obj[k]}
            /\ UNCHANGED <<data, count, frozen, stack, obj, dirty>>
       ELSE /\ stack' = <<Frame(k)>>
            /\ UNCHANGED <<data, age, count, frozen, obj, dirty, handed>>

(* rel["s_covd"], rel["Lie_beta"], ...: the item interface hands back the bound method; nothing is computed, stored or aged *)
RequestFunction(f) ==
    /\ stack = << >> /\ nreq < MaxRequests /\ f \in Functions
    /\ nreq' = nreq + 1 /\ hist' = Append(hist, f) /\ status' = "ok"
    /\ UNCHANGED <<data, age, count, frozen, stack, obj, dirty, handed, nset>>

(* rel.data[k] = v by the user between requests: a new object the user holds; the age table is not touched, *)
(* an importance of 0 set earlier for k stays (freeze_data marks keys, not objects)                        *)
UserSet(k) ==
    /\ stack = << >> /\ k \notin Helpers
    /\ data' = data \cup {k}
    /\ nset' = nset + 1
    /\ obj' = [y \in data \cup {k} |-> IF y = k THEN [k |-> k, c |-> 0 - (nset + 1)] ELSE obj[y]]
    /\ handed' = handed \cup {[k |-> k, c |-> 0 - (nset + 1)]}
    /\ UNCHANGED <<age, count, frozen, stack, nreq, hist, dirty, status>>

Freeze ==
    /\ AllowFreeze /\ stack = << >> /\ ~(data \subseteq frozen) /\ nreq < MaxRequests
    /\ frozen' = frozen \cup data
    /\ hist' = Append(hist, "!freeze")
    /\ UNCHANGED <<data, age, count, stack, nreq, obj, dirty, handed, status, nset>>

(* load_data(sim_data, it) between requests (core.py:304-318): every key of sim_data is assigned a new object, then    *)
(* freeze_data() marks everything that is cached - entries that are not in sim_data stay what they were                *)
Loads == Cardinality({i \in DOMAIN hist : hist[i] = "!load"})
Load ==
    /\ LoadKeys # {} /\ stack = << >> /\ nreq < MaxRequests /\ Loads < 1
    /\ LET new(k) == [k |-> k, c |-> 0 - (nset + 1)] IN
       /\ data' = data \cup LoadKeys
       /\ obj' = [y \in data \cup LoadKeys |-> IF y \in LoadKeys THEN new(y) ELSE obj[y]]
       /\ handed' = handed \cup {new(k) : k \in LoadKeys}
    /\ nset' = nset + 1
    /\ frozen' = frozen \cup data \cup LoadKeys
    /\ hist' = Append(hist, "!load")
    /\ UNCHANGED <<age, count, stack, nreq, dirty, status>>

-----------------------------------------------------------------------------
(* clean-up: which sets may be removed when `k` has just been stored *)
Evictable(a, c)  == {x \in DOMAIN a : x \notin frozen /\ c - a[x] > 1}
SizeOf(x)        == IF x \in DOMAIN Size THEN Size[x] ELSE 1
ImpOf(x)         == IF x \in DOMAIN Imp THEN Imp[x] ELSE 1000
StrainOver(a, c, x) == (c - a[x]) * SizeOf(x) * ImpOf(x) > ClearEvery * 1000
CleanupDue(c)    == (c % ClearEvery = 0) \/ MemTiny
CodeChoice(a, c) == IF ~CleanupDue(c) THEN {}
                    ELSE {x \in Evictable(a, c) : StrainOver(a, c, x) \/ (MemTiny /\ ImpOf(x) > 0 /\ SizeOf(x) > 0)}
Choices(a, c)    == IF Policy = "code" THEN {CodeChoice(a, c)}
                    ELSE IF CleanupDue(c) THEN SUBSET Evictable(a, c) ELSE {{}}

-----------------------------------------------------------------------------
(* the running function body *)
Advance(n) == stack' = [stack EXCEPT ![Len(stack)].node = n]

StepRead ==
    /\ stack # << >> /\ Node(Top).op = "r"
    /\ LET x == Node(Top).key IN
       IF x \in data
       THEN /\ age' = Touch(age, x, count)
            /\ stack' = [stack EXCEPT ![Len(stack)] = [Hold(Top, x, obj[x]) EXCEPT !.node = Node(Top).a]]
            /\ UNCHANGED <<data, count, frozen, nreq, hist, obj, dirty, handed, status, nset>>
       ELSE IF x \in Keys
       THEN /\ stack' = Append(stack, Frame(x))
            /\ UNCHANGED <<data, age, count, frozen, nreq, hist, obj, dirty, handed, status, nset>>
       ELSE \* neither cached nor computable: getattr raises AttributeError
            /\ stack' = << >> /\ status' = "AttributeError"
            /\ UNCHANGED <<data, age, count, frozen, nreq, hist, obj, dirty, handed, nset>>

StepDirect ==
    /\ stack # << >> /\ Node(Top).op = "d"
    /\ IF Node(Top).key \in data
       THEN Advance(Node(Top).a) /\ status' = status
       ELSE stack' = << >> /\ status' = "KeyError"
    /\ UNCHANGED <<data, age, count, frozen, nreq, hist, obj, dirty, handed, nset>>

StepTest ==
    /\ stack # << >> /\ Node(Top).op = "t"
    /\ Advance(IF Node(Top).key \in data THEN Node(Top).a ELSE Node(Top).b)
    /\ UNCHANGED <<data, age, count, frozen, nreq, hist, obj, dirty, handed, status, nset>>

Raise ==
    /\ stack # << >> /\ Node(Top).op = "end" /\ Node(Top).err # ""
    /\ stack' = << >> /\ status' = Node(Top).err
    /\ UNCHANGED <<data, age, count, frozen, nreq, hist, obj, dirty, handed, nset>>

(* pop the finished frame; the caller (if any) moves past its read *)
Pop(o) == IF Len(stack) = 1 THEN << >>
          ELSE LET rest == SubSeq(stack, 1, Len(stack) - 1)
                   par  == rest[Len(rest)]
               IN  [rest EXCEPT ![Len(rest)] = [Hold(par, Top.key, o) EXCEPT !.node = Prog[par.key][par.node].a]]

ReturnHelper ==
    /\ stack # << >> /\ Node(Top).op = "end" /\ Node(Top).err = "" /\ Top.key \in Helpers
    /\ stack' = Pop(InputObj(Top.key))
    /\ UNCHANGED <<data, age, count, frozen, nreq, hist, obj, dirty, handed, status, nset>>

(* Sd = entries removed from the cache, Sa = entries removed from the age table by the clean-up *)
ReturnWith(Sd, Sa) ==
    /\ stack # << >> /\ Node(Top).op = "end" /\ Node(Top).err = "" /\ Top.key \notin Helpers
    /\ LET k  == Top.key
           c  == count + 1
           d1 == data \cup {k}
           a1 == Touch(age, k, c)
           al == Node(Top).alias \cap data
           o  == IF al # {} THEN obj[CHOOSE x \in al : TRUE] ELSE [k |-> k, c |-> c]
           o1 == [y \in d1 |-> IF y = k THEN o ELSE obj[y]]
       IN  /\ count' = c
           /\ dirty' = dirty \cup {Top.held[m] : m \in (Node(Top).mut \cap DOMAIN Top.held)}
           /\ data' = d1 \ Sd
           /\ age'  = [y \in (DOMAIN a1) \ Sa |-> a1[y]]
           /\ obj'  = [y \in d1 \ Sd |-> o1[y]]
           /\ handed' = IF Len(stack) = 1 THEN handed \cup {o} ELSE handed
           /\ stack' = Pop(o)
           /\ UNCHANGED <<frozen, nreq, hist, status, nset>>

Return == /\ stack # << >> /\ Node(Top).op = "end"
          /\ \E S \in Choices(Touch(age, Top.key, count + 1), count + 1) : ReturnWith(S, S)

Step == StepRead \/ StepDirect \/ StepTest
Next == (\E k \in Requests : Request(k)) \/ (\E f \in Functions : RequestFunction(f)) \/ Freeze \/ Load \/ Step \/ Return \/ ReturnHelper \/ Raise
Spec == Init /\ [][Next]_vars
FairSpec == Spec /\ WF_vars(Step \/ Return \/ ReturnHelper \/ Raise)

-----------------------------------------------------------------------------
(* Properties.  C03 *)
AgeTableSubsetOfCache == DOMAIN age \subseteq data
FrozenNeverEvicted    == frozen \subseteq data
FrozenNeverAltered    == \A k \in frozen : k \in data => obj[k] \notin dirty
OnlyWholeUnfrozenEntries ==       \* action property: what a step removes
    [][ /\ (data \ data') \cap frozen = {}
        /\ \A x \in data \ data' : x \notin DOMAIN age'
        /\ \A x \in (DOMAIN age) \ (DOMAIN age') : x \notin data'
        /\ \A x \in data \ data' : x \in DOMAIN age /\ count' - age[x] > 1 ]_vars
(* what is frozen and is not in the dictionary handed to load_data survives the call untouched *)
LoadKeepsFrozen == [][(hist' # hist /\ hist'[Len(hist')] = "!load") =>
                          /\ frozen \subseteq data' /\ frozen \subseteq frozen'
                          /\ \A k \in (frozen \cap data) \ LoadKeys : obj'[k] = obj[k]]_vars
CountMonotone == [][count' >= count /\ (count' > count => Cardinality(data' \ data) <= 1)]_vars
PolicyRefinement ==    \* the code's policy is one of the choices of the safety layer
    stack # << >> => \A c \in {count + 1} :
        CodeChoice(age, c) \subseteq Evictable(age, c)

(* refinement: the set-level behaviour of this specification is a behaviour of CacheSafety.tla, whose invariant *)
(* IndInv is inductive (Apalache): the two bookkeeping clauses then hold for any number of requests            *)
Abs == INSTANCE CacheSafety WITH AllKeys <- Keys \cup Helpers \cup Inputs, data <- data, aged <- DOMAIN age, frozen <- frozen,
                                 recent <- {x \in DOMAIN age : count - age[x] <= 1}
AbsSafety == Abs!ASpec

(* C02 / C01 *)
NoInPlaceWrite   == [][(dirty' \ dirty) \cap handed = {}]_vars   \* nothing the user already holds is ever written
CacheNeverWritten == \A k \in data : obj[k] \notin dirty  \* nor anything later requests may read
NoReentrancy     == \A i, j \in 1 .. Len(stack) : i # j => stack[i].key # stack[j].key
NoUnexplored     == status # "unexplored"
StackBounded     == Len(stack) <= MaxStack
NeverRaises      == status = "ok"
Terminates       == []<>(stack = << >>)               \* every request is eventually answered (FairSpec)

(* exploration aid: shortest history that reaches each (key, leaf) *)
CovInit == TLCSet(1, {})
EmitCoverage ==
    (EmitCov /\ stack # << >> /\ Node(Top).op = "end") =>
        LET c == <<Top.key, Top.node>> IN
        IF c \in TLCGet(1) THEN TRUE
        ELSE /\ TLCSet(1, TLCGet(1) \cup {c})
             /\ PrintT(ToJson([cov |-> c, hist |-> hist, depth |-> Len(stack), count |-> count,
                               cached |-> data, err |-> Node(Top).err]))
Done == stack = << >> /\ nreq = MaxRequests
EmitDone == Done => PrintT(ToJson([done |-> hist, count |-> count, cached |-> data, status |-> status]))
=============================================================================
