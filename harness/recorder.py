"""Run-time wrapper of AurelCore: logs every cache action with its arguments.

No change to /repo: the class methods are wrapped from the harness process.
Events (one dict each, appended to rec.events):
  {"ev":"hit",   "key":k, "depth":d}
  {"ev":"enter", "key":k, "depth":d}
  {"ev":"test",  "key":x, "out":bool, "depth":d}        'x in self.data' evaluated in a function body
  {"ev":"dread", "key":x, "depth":d}                     self.data[x] read directly in a function body
  {"ev":"exit",  "key":k, "depth":d, "count":n, "evicted":[..], "cleanup":bool, "ndata":n, "naged":n}
  {"ev":"raise", "key":k, "depth":d, "exc":name}
  {"ev":"freeze", "frozen":[..]}
depth = number of frames on the evaluation stack when the event happens
(0 = issued by the user).
"""
import sys

import numpy as np

_installed = False
_orig = {}


class KeysProxy:
    """What HookDict.keys() returns: behaves like the keys view, but membership tests are observed."""

    def __init__(self, d):
        self._d = d

    def __contains__(self, k):
        return self._d._contains(k, sys._getframe(1))

    def __iter__(self):
        return dict.__iter__(self._d)

    def __len__(self):
        return dict.__len__(self._d)

    def __repr__(self):
        return "dict_keys(" + repr(list(dict.keys(self._d))) + ")"


class HookDict(dict):
    """AurelCore.data replacement that reports guard tests and direct reads made by function bodies."""

    rec = None

    def _contains(self, k, frame):
        real = dict.__contains__(self, k)
        rec = self.rec
        if rec is None or not rec.active:
            return real
        name = frame.f_code.co_name
        if name in ("__getitem__", "traced_getitem", "cleanup_cache", "freeze_data", "load_data") or rec.depth == 0:
            return real
        if frame.f_code.co_filename.endswith("core.py") is False and "aurel" not in frame.f_code.co_filename:
            return real
        out = rec.on_test(k, real)
        return out

    def __contains__(self, k):
        return self._contains(k, sys._getframe(1))

    def keys(self):
        return KeysProxy(self)

    def __setitem__(self, k, v):
        rec = self.rec
        if rec is not None and rec.active and rec.depth == 0:
            f = sys._getframe(1)
            if f.f_code.co_name not in ("__getitem__", "traced_getitem"):
                rec.events.append({"ev": "set", "key": k, "depth": 0})
        dict.__setitem__(self, k, v)

    def __delitem__(self, k):
        rec = self.rec
        if rec is not None and rec.active:
            f = sys._getframe(1)
            if f.f_code.co_name not in ("cleanup_cache", "traced_cleanup"):
                rec.events.append({"ev": "userdel", "key": k, "depth": rec.depth})
        dict.__delitem__(self, k)

    def __getitem__(self, k):
        rec = self.rec
        if rec is not None and rec.active and rec.depth > 0:
            f = sys._getframe(1)
            if f.f_code.co_name not in ("__getitem__", "traced_getitem", "cleanup_cache", "load_data", "freeze_data") \
                    and "aurel" in f.f_code.co_filename:
                rec.events.append({"ev": "dread", "key": k, "depth": rec.depth})
        return dict.__getitem__(self, k)


class Recorder:
    def __init__(self, rel, forced=None, target=None):
        self.rel = rel
        self.events = []
        self.stack = []
        self.active = True
        self.forced = list(forced or [])   # extraction only: scripted answers for the target frame's tests
        self.forced_pos = 0
        self.target = target
        self.cleanup_before = None
        self.cleanup_ran = False
        self.cleanup_raised = None
        self.read_hook = None        # extraction: called as read_hook(key, value) for every read issued by the target frame
        self.force_keys = {}         # oracle instances: guard key -> outcome every `key in self.data` test is answered with
        if not isinstance(rel.data, HookDict):
            hd = HookDict(rel.data)
            rel.data = hd
        rel.data.rec = self
        rel._vrec = self

    @property
    def depth(self):
        return len(self.stack)

    def on_test(self, k, real):
        out = real
        if self.target is not None and self.stack and self.stack[-1] == self.target and len(self.stack) == 1:
            if self.forced_pos < len(self.forced):
                out = self.forced[self.forced_pos]
            self.forced_pos += 1
        if k in self.force_keys:
            out = self.force_keys[k]
        self.events.append({"ev": "test", "key": k, "out": bool(out), "depth": self.depth, "real": bool(real)})
        return out

    def detach(self):
        self.active = False
        self.rel._vrec = None
        if isinstance(self.rel.data, HookDict):
            self.rel.data.rec = None


def install():
    """Wrap AurelCore.__getitem__, cleanup_cache, freeze_data (idempotent)."""
    global _installed
    if _installed:
        return
    import aurel.core as core
    C = core.AurelCore
    _orig["getitem"] = C.__getitem__
    _orig["cleanup"] = C.cleanup_cache
    _orig["freeze"] = C.freeze_data

    def traced_getitem(self, key):
        rec = getattr(self, "_vrec", None)
        if rec is None or not rec.active:
            return _orig["getitem"](self, key)
        if dict.__contains__(self.data, key):
            rec.events.append({"ev": "hit", "key": key, "depth": rec.depth})
            if rec.read_hook is not None and rec.depth == 1:
                rec.read_hook(key, dict.__getitem__(self.data, key))
            return _orig["getitem"](self, key)
        func = getattr(type(self), key, None)
        if func is None or not hasattr(func, "__code__") or func.__code__.co_argcount != 1:
            v = _orig["getitem"](self, key)       # hands back the method itself
            rec.events.append({"ev": "getfunc", "key": key, "depth": rec.depth, "ndata": dict.__len__(self.data),
                               "naged": len(self.last_accessed)})
            return v
        d = rec.depth
        rec.events.append({"ev": "enter", "key": key, "depth": d})
        rec.stack.append(key)
        rec.cleanup_ran = False
        try:
            v = _orig["getitem"](self, key)
        except BaseException as ex:
            # unwind to this frame
            del rec.stack[d:]
            rec.events.append({"ev": "raise", "key": key, "depth": d, "exc": type(ex).__name__,
                               "in_cleanup": rec.cleanup_raised is not None})
            raise
        del rec.stack[d:]
        ev = {"ev": "exit", "key": key, "depth": d, "count": int(self.calculation_count)}
        ci = rec.last_cleanup
        ev["evicted"] = sorted(ci["evicted"]) if ci else []
        ev["aged_removed"] = sorted(ci["aged_removed"]) if ci else []
        ev["cleanup"] = bool(ci and ci["cleaning"])
        ev["ndata"] = dict.__len__(self.data)
        ev["naged"] = len(self.last_accessed)
        ev["stored"] = dict.__contains__(self.data, key)
        rec.last_cleanup = None
        rec.events.append(ev)
        if rec.read_hook is not None and d == 1:
            rec.read_hook(key, v)
        return v

    def traced_cleanup(self):
        rec = getattr(self, "_vrec", None)
        if rec is None or not rec.active:
            return _orig["cleanup"](self)
        before = set(dict.keys(self.data))
        aged_before = set(self.last_accessed)
        try:
            _orig["cleanup"](self)
        except BaseException as ex:
            rec.cleanup_raised = type(ex).__name__
            raise
        after = set(dict.keys(self.data))
        regular = self.calculation_count % self.clear_cache_every_nbr_calc == 0
        rec.last_cleanup = {"evicted": before - after, "added": after - before,
                            "aged_removed": aged_before - set(self.last_accessed),
                            "cleaning": regular or bool(before - after)}

    def traced_freeze(self):
        _orig["freeze"](self)
        rec = getattr(self, "_vrec", None)
        if rec is not None and rec.active:
            rec.events.append({"ev": "freeze", "frozen": sorted(dict.keys(self.data))})

    C.__getitem__ = traced_getitem
    C.cleanup_cache = traced_cleanup
    C.freeze_data = traced_freeze
    _installed = True


Recorder.last_cleanup = None


_installed_sym = False


def install_symbolic():
    """Same event stream for AurelCoreSymbolic.__getitem__ (no clean-up, no age table)."""
    global _installed_sym
    if _installed_sym:
        return
    import aurel.coresymbolic as cs
    C = cs.AurelCoreSymbolic
    orig = C.__getitem__

    def traced_getitem(self, key):
        rec = getattr(self, "_vrec", None)
        if rec is None or not rec.active:
            return orig(self, key)
        if dict.__contains__(self.data, key):
            rec.events.append({"ev": "hit", "key": key, "depth": rec.depth})
            return orig(self, key)
        func = getattr(type(self), key, None)
        if func is None or not hasattr(func, "__code__") or func.__code__.co_argcount != 1:
            return orig(self, key)
        d = rec.depth
        rec.events.append({"ev": "enter", "key": key, "depth": d})
        rec.stack.append(key)
        try:
            v = orig(self, key)
        except BaseException as ex:
            del rec.stack[d:]
            rec.events.append({"ev": "raise", "key": key, "depth": d, "exc": type(ex).__name__, "in_cleanup": False})
            raise
        del rec.stack[d:]
        rec.count = getattr(rec, "count", 0) + 1
        rec.events.append({"ev": "exit", "key": key, "depth": d, "count": rec.count, "evicted": [], "aged_removed": [],
                           "cleanup": False, "ndata": dict.__len__(self.data), "naged": rec.count, "stored": True})
        return v

    C.__getitem__ = traced_getitem
    _installed_sym = True
