------------------------------ MODULE OverTime ------------------------------
(* The time-series driver aurel.over_time (time.py:58-441), property C14.     *)
(*                                                                           *)
(* A table has one row per time step.  A cell is determined by its column    *)
(* and the step it belongs to:                                               *)
(*   input column c      : In(c, step)                                       *)
(*   variable column v   : Val(v, step) = what a fresh AurelCore holding     *)
(*                         exactly step's input columns returns for v        *)
(*   estimate column c_e : Est(e, c, step) = estimator e applied to the 3-D  *)
(*                         array in column c of the same row                 *)
(* so the table is described by its set of columns and its row order.  The   *)
(* driver may be called repeatedly on its own output.                        *)
EXTENDS Integers, Sequences, FiniteSets, TLC, Json

CONSTANTS Steps,        \* set of time steps, e.g. 1..3 (step = value of the temporal key)
          InScalars,    \* input columns holding 3-D scalars
          InOthers,     \* other input columns (tensors)
          TemporalKeys, \* set of possible temporal key sets, e.g. {{"it"}, {"t"}, {"it","t"}}
          ScalarVars, TensorVars, \* variables that can be requested (built-in or custom), by kind of value
          InRequestable,\* input columns whose name is also the name of a built-in variable and may be requested: the request is
                        \* dropped, the column stays what the user supplied
          Estimates,
          MaxCalls, Emit

VARIABLES cols,      \* columns present: records [kind |-> "in"/"var"/"est", name, of, e]
          order,     \* row order: sequence of steps
          order0,    \* row order of the input table
          tkeys,     \* temporal keys present in the table
          wantV, wantE, \* the overall request (V, E)
          hist       \* calls made: sequence of [vars, ests] and "shuffle" steps
vars == <<cols, order, order0, tkeys, wantV, wantE, hist>>

Range(s) == {s[i] : i \in 1 .. Len(s)}
Perms(S) == {f \in [1 .. Cardinality(S) -> S] : \A i, j \in 1 .. Cardinality(S) : i # j => f[i] # f[j]}
InCol(c)      == [kind |-> "in", name |-> c, of |-> "", e |-> ""]
VarCol(v)     == [kind |-> "var", name |-> v, of |-> "", e |-> ""]
EstCol(c, e)  == [kind |-> "est", name |-> c \o "_" \o e, of |-> c, e |-> e]
ScalarCols(C) == {c.name : c \in {x \in C : (x.kind = "in" /\ x.name \in InScalars) \/ (x.kind = "var" /\ x.name \in ScalarVars)}}
Sorted        == [i \in 1 .. Cardinality(Steps) |-> CHOOSE s \in Steps : Cardinality({u \in Steps : u < s}) = i - 1]

Init == /\ tkeys \in TemporalKeys
        /\ cols = {InCol(c) : c \in InScalars \cup InOthers}
        /\ order \in Perms(Steps) /\ order0 = order
        /\ wantV \in SUBSET (ScalarVars \cup TensorVars \cup InRequestable) /\ wantE \in SUBSET Estimates
        /\ hist = << >>

(* one call over_time(data, fd, vars = V, estimates = E) on the current table *)
Call(V, E) ==
    /\ Len(hist) < MaxCalls /\ V \subseteq wantV /\ E \subseteq wantE
    /\ LET newV   == {v \in V : VarCol(v) \notin cols /\ InCol(v) \notin cols}
           c1     == cols \cup {VarCol(v) : v \in newV}
           sc     == ScalarCols(c1)
           newE   == {EstCol(c, e) : c \in sc, e \in E} \ c1
           did    == newV # {} \/ newE # {}               \* otherwise the table is returned untouched
       IN  /\ cols' = c1 \cup newE
           /\ order' = IF did THEN Sorted ELSE order
    /\ hist' = Append(hist, [op |-> "call", vars |-> V, ests |-> E])
    /\ UNCHANGED <<tkeys, wantV, wantE, order0>>
Shuffle == /\ Len(hist) < MaxCalls /\ hist # << >> /\ hist[Len(hist)].op # "shuffle"
           /\ \E p \in Perms(Steps) : p # order /\ order' = p
           /\ hist' = Append(hist, [op |-> "shuffle", order |-> order'])
           /\ UNCHANGED <<cols, tkeys, wantV, wantE, order0>>
Next == (\E V \in SUBSET (ScalarVars \cup TensorVars \cup InRequestable), E \in SUBSET Estimates : Call(V, E)) \/ Shuffle
Spec == Init /\ [][Next]_vars

-----------------------------------------------------------------------------
(* the table one single call over_time(inputs, V, E) produces *)
Final(V, E) == {InCol(c) : c \in InScalars \cup InOthers} \cup {VarCol(v) : v \in V \ (InScalars \cup InOthers)}
               \cup {EstCol(c, e) : c \in InScalars \cup (V \cap ScalarVars), e \in E}
Calls      == {k \in 1 .. Len(hist) : hist[k].op = "call"}
Requested  == UNION {hist[k].vars : k \in Calls}
(* a split is admissible if every variable was requested and every estimate was passed in a call made when  *)
(* (or after) the last scalar column appeared                                                               *)
LastScalarCall == IF \E k \in Calls : hist[k].vars \cap ScalarVars # {}
                  THEN CHOOSE k \in Calls : hist[k].vars \cap ScalarVars # {} /\ \A j \in Calls : hist[j].vars \cap ScalarVars # {} => j <= k
                  ELSE 0
Admissible == /\ Requested = wantV
              /\ \A e \in wantE : \E k \in Calls : k >= LastScalarCall /\ e \in hist[k].ests
SplitInvariant == Admissible => cols = Final(wantV, wantE)
NoColumnLost   == [][cols \subseteq cols']_vars
InputsPreserved == {InCol(c) : c \in InScalars \cup InOthers} \subseteq cols
EstimatesOnlyOfScalars == \A c \in cols : c.kind = "est" => c.of \in ScalarCols(cols)

EmitState == (Emit /\ hist # << >> /\ hist[Len(hist)].op = "call") =>
    PrintT(ToJson([hist |-> hist, init_order |-> order0, tkeys |-> tkeys, wantV |-> wantV, wantE |-> wantE,
                   cols |-> cols, admissible |-> Admissible, sorted |-> (order = Sorted)]))
=============================================================================
